#!/bin/bash
# ./confirm_custom_seed.sh <ID> <variant> <worktree-path> '<demo command (run in worktree-aware demo dir)>' '<pkgs to build>' '<pkgs to test>'
# Confirms a seeded change whose demonstration is not a plain zz_seed test: recreates the scratch worktree the demo
# refers to, runs the demo without and with the change, builds and tests the named packages with the change.
set -u
export GOFLAGS=-mod=mod GOPROXY=off GOSUMDB=off GOTOOLCHAIN=local
id="$1"; v="$2"; wt="$3"; demo="$4"; build="$5"; tests="$6"
sd="/tmp/seeded_out/$id/$v"; [ -d "$sd" ] || sd="/verif/seeded/${id}_$v"
git -C /repo worktree remove --force "$wt" >/dev/null 2>&1; git -C /repo worktree add -q --detach "$wt" HEAD || exit 2
trap 'git -C /repo worktree remove --force "$wt" >/dev/null 2>&1' EXIT
export WT="$wt" SD="$sd"
(eval "$demo") >/tmp/ccs_without_$$ 2>&1 && without=PASS || without=FAIL
(cd "$wt" && git apply "$sd/patch.diff") && ap=ok || ap=FAILED
(cd "$wt" && go build $build >/tmp/ccs_b_$$ 2>&1) && b=ok || b=FAIL
(cd "$wt" && go test -vet=off -count=1 -timeout 900s $tests >/tmp/ccs_t_$$ 2>&1) && t=ok || t="FAIL($(grep -E '^(--- FAIL|FAIL)' /tmp/ccs_t_$$ | tr '\n' ' ' | cut -c1-200))"
(eval "$demo") >/tmp/ccs_with_$$ 2>&1 && with=PASS || with=FAIL
echo "SEED $id/$v apply=$ap build=$b tests=$t demo_with_change=$with demo_without_change=$without"
tail -5 /tmp/ccs_with_$$ | cut -c1-200
rm -f /tmp/ccs_*_$$
