package verifext

// Assumed contracts of interfaces whose implementations are cryptographic code outside the verifier's reach.

//@ import keys "github.com/bloxapp/ssv/operator/keys"

// Operator keys are RSA-2048 (rsaencryption.keySize): a PKCS#1 v1.5 signature is exactly 256 bytes, the
// signatureSize that network/commons hard-codes for the envelope.
//@ extern func (s keys.OperatorSigner) Sign(data []byte) (result []byte, err error)
//@ modifies nothing
//@ ensures err == nil ==> len(result) == 256
