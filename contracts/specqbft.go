// Assumed contracts of the ssv-spec (v0.3.7) functions the node's code calls. Written from their source in the
// module cache; every one of them is listed as an assumption in the evidence of the checks that use it.
package verifext

//@ import specqbft "github.com/bloxapp/ssv-spec/qbft"
//@ import spectypes "github.com/bloxapp/ssv-spec/types"

//@ rigid HashDataRoot

//@ extern func (s *specqbft.SignedMessage) GetSigners() (result []spectypes.OperatorID)
//@ pure
//@ ensures same(result, s.Signers)

// Validate: non-empty, pairwise distinct, non-zero signers; well-formed inner message.
//@ extern func (s *specqbft.SignedMessage) Validate() (result error)
//@ pure
//@ ensures result == nil ==> len(s.Signers) > 0
//@ ensures result == nil ==> (forall i int, j int :: 0 <= i && i < j && j < len(s.Signers) ==> s.Signers[i] != s.Signers[j])
//@ ensures result == nil ==> (forall i int :: 0 <= i && i < len(s.Signers) ==> s.Signers[i] != 0)
//@ ensures result == nil ==> len(s.Message.Identifier) != 0 && s.Message.MsgType <= specqbft.RoundChangeMsgType
//@ ensures result == nil ==> snd(s.Message.GetRoundChangeJustifications()) == nil && snd(s.Message.GetPrepareJustifications()) == nil

// MatchedSigners: same length and every signer of the message occurs in ids.
//@ extern func (s *specqbft.SignedMessage) MatchedSigners(ids []spectypes.OperatorID) (result bool)
//@ pure
//@ ensures result ==> len(s.Signers) == len(ids) && (forall i int :: 0 <= i && i < len(s.Signers) ==> (exists j int :: 0 <= j && j < len(ids) && ids[j] == s.Signers[i]))

//@ extern func (s *specqbft.SignedMessage) CommonSigners(ids []spectypes.OperatorID) (result bool)
//@ pure
//@ ensures !result ==> (forall i int, j int :: 0 <= i && i < len(s.Signers) && 0 <= j && j < len(ids) ==> s.Signers[i] != ids[j])

//@ extern func (m *specqbft.Message) RoundChangePrepared() (result bool)
//@ pure
//@ ensures result <==> (m.MsgType == specqbft.RoundChangeMsgType && m.DataRound != specqbft.NoRound)

// decoded justification lists never contain nil (every element is a freshly decoded message)
//@ extern func (m *specqbft.Message) GetRoundChangeJustifications() (result []*specqbft.SignedMessage, err error)
//@ pure
//@ ensures forall k int :: 0 <= k && k < len(result) ==> result[k] != nil

//@ extern func (m *specqbft.Message) GetPrepareJustifications() (result []*specqbft.SignedMessage, err error)
//@ pure
//@ ensures forall k int :: 0 <= k && k < len(result) ==> result[k] != nil

// sha256 of the data: a function of the byte contents; never fails.
//@ extern func specqbft.HashDataRoot(data []byte) (result [32]byte, err error)
//@ pure
//@ ensures err == nil

// HasQuorum / HasPartialQuorum count DISTINCT signer ids over all messages against share.Quorum / share.PartialQuorum.
//@ extern func specqbft.HasQuorum(share *spectypes.Share, msgs []*specqbft.SignedMessage) (result bool)
//@ pure

//@ extern func specqbft.HasPartialQuorum(share *spectypes.Share, msgs []*specqbft.SignedMessage) (result bool)
//@ pure

//@ extern func (share *spectypes.Share) HasQuorum(cnt int) (result bool)
//@ pure
//@ ensures cnt >= 0 ==> (result <==> raw(cnt) >= raw(share.Quorum))

//@ extern func (share *spectypes.Share) HasPartialQuorum(cnt int) (result bool)
//@ pure
//@ ensures cnt >= 0 ==> (result <==> raw(cnt) >= raw(share.PartialQuorum))

//@ extern func (n *spectypes.Operator) GetID() (result spectypes.OperatorID)
//@ pure
//@ ensures result == n.OperatorID

//@ extern func (n *spectypes.Operator) GetPublicKey() (result []byte)
//@ pure
//@ ensures same(result, n.PubKey)

//@ extern func spectypes.ComputeSigningRoot(object spectypes.Root, domain spectypes.SignatureDomain) (result [32]byte, err error)
//@ pure

//@ extern func spectypes.ComputeSignatureDomain(domain spectypes.DomainType, sigType spectypes.SignatureType) (result spectypes.SignatureDomain)
//@ pure

//@ extern func (m *specqbft.Message) Validate() (result error)
//@ pure
//@ ensures result == nil ==> len(m.Identifier) != 0 && m.MsgType <= specqbft.RoundChangeMsgType
//@ ensures result == nil ==> snd(m.GetRoundChangeJustifications()) == nil && snd(m.GetPrepareJustifications()) == nil

// Leader of (height, round): committee[(height mod n + round - 1) mod n]. The index computation is only in range
// for rounds >= 1 that fit a signed 64-bit integer, on a non-empty committee without nil members.
//@ extern func specqbft.RoundRobinProposer(state *specqbft.State, round specqbft.Round) (result spectypes.OperatorID)
//@ pure
//@ requires state != nil && state.Share != nil && len(state.Share.Committee) > 0
//@ requires forall k int :: 0 <= k && k < len(state.Share.Committee) ==> state.Share.Committee[k] != nil
//@ requires round >= specqbft.FirstRound && round <= 4611686018427387904
// (int(state.Height) % n: a height of 2^63 or more is negative as an int, and so is the index - F20)
//@ requires raw(state.Height) <= 9223372036854775807
//@ ensures exists k int :: 0 <= k && k < len(state.Share.Committee) && result == state.Share.Committee[k].OperatorID

// SSVMessage accessors are plain field reads.
//@ extern func (m *spectypes.SSVMessage) GetID() (result spectypes.MessageID)
//@ pure
//@ ensures result == m.MsgID

//@ extern func (m *spectypes.SSVMessage) GetType() (result spectypes.MsgType)
//@ pure
//@ ensures result == m.MsgType

// The SSZ decoder of partial-signature messages allocates every entry it decodes (generated UnmarshalSSZ): a
// successfully decoded message has no nil entries.
//@ extern func (s *spectypes.SignedPartialSignatureMessage) Decode(data []byte) (result error)
//@ modifies everything
//@ ensures result == nil ==> (forall k int :: 0 <= k && k < len(s.Message.Messages) ==> s.Message.Messages[k] != nil)

//@ extern func (m *spectypes.SSVMessage) GetData() (result []byte)
//@ pure
//@ ensures same(result, m.Data)
