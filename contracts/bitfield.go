package verifext

// Assumed contract of the prysm bitfield dependency (read from its source: Bitvector128.Len returns the constant 128).

//@ import bitfield "github.com/prysmaticlabs/go-bitfield"

//@ extern func (b bitfield.Bitvector128) Len() (result uint64)
//@ modifies nothing
//@ ensures result == 128
