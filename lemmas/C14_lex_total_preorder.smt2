; C14 glue lemma: the relation  prior(a,b) := key(a) >=lex key(b)  on 5-tuples of integer scores
; (the postcondition `lexicographic` of standardPrioritizer.Prior) is reflexive, total and transitive,
; i.e. it satisfies the PREORDER hypothesis under which pop's `maximal` clause is proved.
(set-logic ALL)
(declare-fun t (Int) Int) (declare-fun h (Int) Int) (declare-fun s (Int) Int) (declare-fun r (Int) Int) (declare-fun c (Int) Int)
(define-fun prior ((a Int) (b Int)) Bool
  (or (> (t a) (t b)) (and (= (t a) (t b)) (or (> (h a) (h b)) (and (= (h a) (h b)) (or (> (s a) (s b)) (and (= (s a) (s b))
  (or (> (r a) (r b)) (and (= (r a) (r b)) (>= (c a) (c b)))))))))))
(declare-const x Int) (declare-const y Int) (declare-const z Int)
(assert (not (and (prior x x) (or (prior x y) (prior y x)) (=> (and (prior x y) (prior y z)) (prior x z)))))
(check-sat)
