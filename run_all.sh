#!/bin/bash
# ./run_all.sh [tier] -- every registered check, one summary line each (and any VIOLATION lines)
cd "$(dirname "$0")"
tier="${1:-quick}"
for p in C01 C02 C03 C04 C05 C06 C07 C08 C09 C10 C11 C12 C13 C14 C15 C16 C17 C18; do
  ./check $p $tier 2>&1 | grep "^gowp\|^VIOL\|^KNOWN" | cut -c1-220
done
