#!/bin/bash
# ./run_seeds.sh [dir...] -- run each kept seeded change against the check of its property; prints CAUGHT/MISSED per seed
cd "$(dirname "$0")"
dirs=("$@"); [ ${#dirs[@]} -eq 0 ] && dirs=(seeded/*/)
for d in "${dirs[@]}"; do
  d=${d%/}; id=$(basename $d | cut -d_ -f1)
  p=$d/patch.diff; [ -f $d/patch_rebased.diff ] && p=$d/patch_rebased.diff
  out=$(./trypatch.sh $id "$PWD/$p" 2>&1); rc=$?
  n=$(echo "$out" | grep -c '^VIOLATION')
  if [ $rc -eq 1 ] && [ $n -gt 0 ]; then echo "CAUGHT $d ($n violations): $(echo "$out" | grep -m1 'obligation' | cut -c1-140)"; else echo "MISSED $d rc=$rc: $(echo "$out" | tail -1 | cut -c1-160)"; fi
done
