#!/bin/bash
# ./proc_seed.sh <ID> <variant> -- verify a delivered seed (/tmp/seeded_out/<ID>/<v>) and run the property's check against it
id="$1"; v="$2"; sd=/tmp/seeded_out/$id/$v
cd /verif
SEED_FLAGS="${SEED_FLAGS--overlay /tmp/quic_ov/ov.json -ldflags=-checklinkname=0}" ./verify_seed.sh $sd > /tmp/seeded_out/$id/$v.verify 2>&1 &
./trypatch.sh $id $sd/patch.diff > /tmp/seeded_out/$id/$v.check 2>&1
wait
cat /tmp/seeded_out/$id/$v.verify
grep "^gowp\|^VIOL" /tmp/seeded_out/$id/$v.check | cut -c1-260 | head -12
