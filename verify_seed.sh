#!/bin/bash
# ./verify_seed.sh <seed-dir> -- confirm a seeded change in a scratch worktree of /repo:
#   patch applies, touched packages build, their existing tests pass, the demo fails with the change and passes without.
# Prints one line: SEED <dir> apply=ok build=ok tests=ok demo_with=FAIL demo_without=PASS
set -u
export GOFLAGS=-mod=mod GOPROXY=off GOSUMDB=off GOTOOLCHAIN=local
sd="$1"; wt="/tmp/wsv_$$"
# SEED_FLAGS: extra go build/test flags (e.g. the quic-go test-build overlay, -ldflags=-checklinkname=0)
SF="${SEED_FLAGS:-}"
git -C /repo worktree add -q --detach "$wt" HEAD || exit 2
trap 'git -C /repo worktree remove --force "$wt" >/dev/null 2>&1' EXIT
pkgs=$(grep '^+++ b/' "$sd/patch.diff" | sed 's|^+++ b/||' | xargs -n1 dirname | sort -u)
# the demonstration may live in another package than the patched one (meta.json: demo_package)
dp=$(python3 -c "import json,sys; print(json.load(open('$sd/meta.json')).get('demo_package',''))" 2>/dev/null)
[ -n "$dp" ] && [ -d "$wt/$dp" ] && pkgs=$(printf '%s\n%s\n' "$pkgs" "$dp" | sort -u)
demos=$(ls "$sd"/*_test.go 2>/dev/null)
res="SEED $sd"
place_demo() { if [ -n "$dp" ] && [ -d "$wt/$dp" ]; then for d in $demos; do cp "$d" "$wt/$dp/"; echo "$dp/$(basename $d)"; done; return; fi; for d in $demos; do pk=$(grep -m1 '^package ' "$d" | awk '{print $2}' | sed 's/_test$//'); for p in $pkgs; do if [ "$(basename $p)" = "$pk" ] || grep -q "^package $pk\b" "$wt/$p"/*.go 2>/dev/null; then cp "$d" "$wt/$p/"; echo "$p/$(basename $d)"; break; fi; done; done; }
run_demo() { local ok=PASS; for p in $pkgs; do ls "$wt/$p"/zz_seed*_test.go >/dev/null 2>&1 || continue; (cd "$wt" && go test $SF -vet=off -count=1 -timeout 300s -run 'Seed|seed' "./$p/" >/tmp/wsv_out_$$ 2>&1) || ok=FAIL; done; echo $ok; }
placed=$(place_demo)
[ -z "$placed" ] && res="$res demo=none"
without=$(run_demo)
if (cd "$wt" && git apply "$sd/patch.diff"); then res="$res apply=ok"; else echo "$res apply=FAILED"; exit 1; fi
b=ok; for p in $pkgs; do (cd "$wt" && go build $SF "./$p/" >/dev/null 2>&1) || b=FAIL; done; res="$res build=$b"
for d in $placed; do mv "$wt/$d" "$wt/$d.off"; done
t=ok; for p in $pkgs; do (cd "$wt" && go test $SF -vet=off -count=1 -timeout 600s "./$p/" >/tmp/wsv_t_$$ 2>&1) || { grep -q "build failed\|cannot find\|qtls" /tmp/wsv_t_$$ && t="${t}(testbin-unbuildable:$p)" || t=FAIL; }; done; res="$res tests=$t"
for d in $placed; do mv "$wt/$d.off" "$wt/$d"; done
with=$(run_demo)
echo "$res demo_with_change=$with demo_without_change=$without"
rm -f /tmp/wsv_out_$$ /tmp/wsv_t_$$
