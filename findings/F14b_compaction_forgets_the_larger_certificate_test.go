package storage

// Side finding for C15 (fails on the UNCHANGED tree). Place in ibft/storage (package storage) and run:
//   go test -vet=off -count=1 -run 'TestC15Side' ./ibft/storage/

import (
	"testing"

	"github.com/attestantio/go-eth2-client/spec/phase0"
	"github.com/herumi/bls-eth-go-binary/bls"
	"github.com/stretchr/testify/require"

	specqbft "github.com/bloxapp/ssv-spec/qbft"
	spectypes "github.com/bloxapp/ssv-spec/types"
	spectestingutils "github.com/bloxapp/ssv-spec/types/testingutils"

	"github.com/bloxapp/ssv/logging"
	"github.com/bloxapp/ssv/protocol/v2/qbft"
	"github.com/bloxapp/ssv/protocol/v2/qbft/controller"
	"github.com/bloxapp/ssv/protocol/v2/qbft/roundtimer"
	qbftstorage "github.com/bloxapp/ssv/protocol/v2/qbft/storage"
	"github.com/bloxapp/ssv/protocol/v2/ssv/runner"
)

func c15SideRunner(store qbftstorage.QBFTStore, identifier []byte, share *spectypes.Share, fullNode bool) runner.Runner {
	valCheck := func([]byte) error { return nil }
	net := spectestingutils.NewTestingNetwork()
	km := spectestingutils.NewTestingKeyManager()
	config := &qbft.Config{
		Signer:                km,
		SigningPK:             share.ValidatorPubKey,
		Domain:                spectestingutils.TestingSSVDomainType,
		ValueCheckF:           valCheck,
		ProposerF:             func(*specqbft.State, specqbft.Round) spectypes.OperatorID { return 1 },
		Storage:               store,
		Network:               net,
		Timer:                 roundtimer.NewTestingTimer(),
		SignatureVerification: true,
	}
	// same wiring as operator/validator.SetupRunners (default container capacity)
	ctrl := controller.NewController(identifier, share, config, fullNode)
	return runner.NewSyncCommitteeRunner(spectypes.BeaconTestNetwork, share, ctrl, spectestingutils.NewTestingBeaconNode(), net, km, valCheck, 0)
}

func c15SideDecided(ks *spectestingutils.TestKeySet, identifier []byte, height specqbft.Height, ids ...spectypes.OperatorID) *specqbft.SignedMessage {
	sks := make([]*bls.SecretKey, 0, len(ids))
	for _, id := range ids {
		sks = append(sks, ks.Shares[id])
	}
	return spectestingutils.TestingCommitMultiSignerMessageWithHeightAndIdentifier(sks, ids, height, identifier)
}

func c15SideDuty(slot phase0.Slot) *spectypes.Duty {
	d := spectestingutils.TestingSyncCommitteeDuty
	d.Slot = slot
	return &d
}

// History (sync committee runner, one duty per slot):
//  1. decided(10) learned           -> Height 10, highest_instance = 10
//  2. duty for slot 12 started      -> Height 12
//  3. late decided(11) learned      -> instance 11 marked decided in memory, duty 11 refused
//  4. restart (new controller + LoadHighestInstance as Validator.Start does)
//  5. duty for slot 11
//
// Statement: "the highest decided instance survives a restart: after restart the runner resumes with
// that height and still refuses older or equal duties".
// Actual: decided(11) is never written as highest (SaveInstance: 11 >= c.Height(12) is false; a light node
// writes nothing at all), the node resumes with height 10 and starts consensus for slot 11 again although
// it had learned slot 11 as decided.
func c15SideRun(t *testing.T, fullNode bool) {
	logger := logging.TestLogger(t)
	ks := spectestingutils.Testing4SharesSet()
	share := spectestingutils.TestingShare(ks)
	msgID := spectypes.NewMsgID(spectestingutils.TestingSSVDomainType, share.ValidatorPubKey, spectypes.BNRoleSyncCommittee)
	identifier := msgID[:]

	store, err := newTestIbftStorage(logger, "test")
	require.NoError(t, err)

	r := c15SideRunner(store, identifier, share, fullNode)
	ctrl := r.GetBaseRunner().QBFTController

	// 1. decided(10)
	require.NoError(t, r.ProcessConsensus(logger, c15SideDecided(ks, identifier, 10, 1, 2, 3)))
	require.EqualValues(t, 10, ctrl.Height)
	stored, err := store.GetHighestInstance(identifier)
	require.NoError(t, err)
	require.EqualValues(t, 10, stored.State.Height)

	// 2. start duty 12
	require.NoError(t, r.StartNewDuty(logger, c15SideDuty(12)))
	require.EqualValues(t, 12, ctrl.Height)

	// 3. late decided(11): the runner reports it is not the running instance, but the controller learned it
	_ = r.ProcessConsensus(logger, c15SideDecided(ks, identifier, 11, 1, 2, 3))
	inst11 := ctrl.StoredInstances.FindInstance(11)
	require.NotNil(t, inst11)
	require.True(t, inst11.State.Decided, "height 11 learned as decided")
	require.Error(t, r.StartNewDuty(logger, c15SideDuty(11)), "duty 11 refused before restart")

	// 4. restart
	r2 := c15SideRunner(store, identifier, share, fullNode)
	ctrl2 := r2.GetBaseRunner().QBFTController
	_, err = ctrl2.LoadHighestInstance(identifier)
	require.NoError(t, err)

	stored, err = store.GetHighestInstance(identifier)
	require.NoError(t, err)
	t.Logf("after restart: controller height %d, highest_instance height %d", ctrl2.Height, stored.State.Height)

	// 5. duty 11 must still be refused
	err = r2.StartNewDuty(logger, c15SideDuty(11))
	require.Error(t, err, "duty for slot 11 (learned as decided before the restart) was started again after restart; resumed height %d", ctrl2.Height)
	require.EqualValues(t, 11, stored.State.Height, "highest decided instance (11) did not survive the restart")
}

func TestVerifObs_C15_LightNode_LateDecidedBelowStartedHeightLostOnRestart(t *testing.T) {
	c15SideRun(t, false)
}

func TestVerifObs_C15_FullNode_LateDecidedBelowStartedHeightLostOnRestart(t *testing.T) {
	c15SideRun(t, true)
}

func c15SideDecidedRound(ks *spectestingutils.TestKeySet, identifier []byte, height specqbft.Height, round specqbft.Round, ids ...spectypes.OperatorID) *specqbft.SignedMessage {
	sks := make([]*bls.SecretKey, 0, len(ids))
	for _, id := range ids {
		sks = append(sks, ks.Shares[id])
	}
	return spectestingutils.TestingCommitMultiSignerMessageWithParams(sks, ids, round, height, identifier,
		spectestingutils.TestingQBFTRootData, spectestingutils.TestingQBFTFullData)
}

// Second side finding: 7-operator committee (quorum 5), all certificates are for the SAME height and the SAME value
// (all can be produced by correct operators: commits were sent in round 1, some operators timed out and committed again in round 2).
//  A: decided round 2, 5 signers -> stored (State.Round becomes 2)
//  B: decided round 1, 7 signers -> stored, replaces A (more signers: fine)
//  -- commit messages of rounds < State.Round are dropped by Compact (runner.compactInstanceIfNeeded after every
//     decided message, CompactCopy on save, Compact on load), so B leaves the commit container --
//  C: decided round 2, 6 signers -> compared only with A (5): stored, REPLACES the 7-signer certificate B.
// Statement: "Stored decided instances are only ever replaced by a certificate for a higher height or, at the same
// height, by one with more signers."
func c15SideRunSigners(t *testing.T, restart bool) {
	logger := logging.TestLogger(t)
	ks := spectestingutils.Testing7SharesSet()
	share := spectestingutils.TestingShare(ks)
	msgID := spectypes.NewMsgID(spectestingutils.TestingSSVDomainType, share.ValidatorPubKey, spectypes.BNRoleSyncCommittee)
	identifier := msgID[:]
	const h = specqbft.Height(10)

	store, err := newTestIbftStorage(logger, "test")
	require.NoError(t, err)

	r := c15SideRunner(store, identifier, share, false)

	signersStored := func() int {
		stored, err := store.GetHighestInstance(identifier)
		require.NoError(t, err)
		require.NotNil(t, stored)
		require.Equal(t, h, stored.State.Height)
		return len(stored.DecidedMessage.Signers)
	}

	require.NoError(t, r.ProcessConsensus(logger, c15SideDecidedRound(ks, identifier, h, 2, 1, 2, 3, 4, 5)))
	require.Equal(t, 5, signersStored())
	require.NoError(t, r.ProcessConsensus(logger, c15SideDecidedRound(ks, identifier, h, 1, 1, 2, 3, 4, 5, 6, 7)))
	require.Equal(t, 7, signersStored())

	if restart {
		r = c15SideRunner(store, identifier, share, false)
		_, err = r.GetBaseRunner().QBFTController.LoadHighestInstance(identifier)
		require.NoError(t, err)
	}

	require.NoError(t, r.ProcessConsensus(logger, c15SideDecidedRound(ks, identifier, h, 2, 2, 3, 4, 5, 6, 7)))
	require.Equal(t, 7, signersStored(), "stored 7-signer certificate was replaced by a same-height certificate with fewer signers")
}

func TestVerifF14b_FewerSignersReplaceStored_NoRestart(t *testing.T) { c15SideRunSigners(t, false) }
func TestVerifF14b_FewerSignersReplaceStored_Restart(t *testing.T)   { c15SideRunSigners(t, true) }
