#!/bin/bash
# usage: run_ekm_finding.sh <repo-dir> [test-file]   -- compiles a finding test into package ekm through a go overlay
# (the package's own _test.go files import packages that do not build offline; they are replaced by an empty file).
set -eu
HERE=$(cd "$(dirname "$0")" && pwd)
REPO=$(cd "${1:-/repo}" && pwd)
TEST=${2:-$HERE/F6_empty_proposal_record_accepted_test.go}
export GOFLAGS=-mod=mod GOPROXY=off GOSUMDB=off GOTOOLCHAIN=local
TMP=$(mktemp -d "${TMPDIR:-/var/tmp}/ekmfinding.XXXXXX")
trap 'rm -rf "$TMP"' EXIT
echo 'package ekm' > "$TMP/blank_test.go"
cat > "$TMP/ov.json" <<JSON
{ "Replace": {
  "$REPO/ekm/signer_key_manager_test.go": "$TMP/blank_test.go",
  "$REPO/ekm/signer_storage_test.go": "$TMP/blank_test.go",
  "$REPO/ekm/zz_verif_finding_test.go": "$TEST"
} }
JSON
cd "$REPO"
go test -vet=off -count=1 -timeout 300s -overlay "$TMP/ov.json" -run 'TestVerifF' -v ./ekm/
