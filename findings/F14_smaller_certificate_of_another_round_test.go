package controller

import (
	"testing"

	specqbft "github.com/bloxapp/ssv-spec/qbft"
	spectypes "github.com/bloxapp/ssv-spec/types"
	spectestingutils "github.com/bloxapp/ssv-spec/types/testingutils"
	"github.com/herumi/bls-eth-go-binary/bls"
	"github.com/stretchr/testify/require"
	"go.uber.org/zap"

	"github.com/bloxapp/ssv/logging"
	"github.com/bloxapp/ssv/protocol/v2/qbft"
	"github.com/bloxapp/ssv/protocol/v2/qbft/roundtimer"
	qbftstorage "github.com/bloxapp/ssv/protocol/v2/qbft/storage"
)

// f14Store is a minimal in-memory QBFTStore which keeps encoded copies of what was saved.
type f14Store struct {
	highest      []byte
	highestSaves int
	history      map[specqbft.Height][]byte
}

func (s *f14Store) encode(inst *qbftstorage.StoredInstance) []byte {
	b, err := inst.Encode()
	if err != nil {
		panic(err)
	}
	return b
}

func (s *f14Store) decode(b []byte) (*qbftstorage.StoredInstance, error) {
	if b == nil {
		return nil, nil
	}
	ret := &qbftstorage.StoredInstance{}
	if err := ret.Decode(b); err != nil {
		return nil, err
	}
	return ret, nil
}

func (s *f14Store) GetHighestInstance([]byte) (*qbftstorage.StoredInstance, error) {
	return s.decode(s.highest)
}

func (s *f14Store) GetInstancesInRange([]byte, specqbft.Height, specqbft.Height) ([]*qbftstorage.StoredInstance, error) {
	return nil, nil
}

func (s *f14Store) SaveInstance(inst *qbftstorage.StoredInstance) error {
	if s.history == nil {
		s.history = map[specqbft.Height][]byte{}
	}
	s.history[inst.State.Height] = s.encode(inst)
	return nil
}

func (s *f14Store) SaveHighestInstance(inst *qbftstorage.StoredInstance) error {
	s.highest = s.encode(inst)
	s.highestSaves++
	return nil
}

func (s *f14Store) SaveHighestAndHistoricalInstance(inst *qbftstorage.StoredInstance) error {
	if err := s.SaveInstance(inst); err != nil {
		return err
	}
	return s.SaveHighestInstance(inst)
}

func (s *f14Store) GetInstance(_ []byte, h specqbft.Height) (*qbftstorage.StoredInstance, error) {
	return s.decode(s.history[h])
}

func (s *f14Store) CleanAllInstances(*zap.Logger, []byte) error {
	s.highest, s.history = nil, nil
	return nil
}

// F14 (C15): the 'already decided: add only if more signers' branch of UponDecided counts the signers of the stored
// commits FOR THE ROUND OF THE INCOMING MESSAGE. Two certificates for the same height and value but different rounds are
// both legitimate (some operators commit in round 1, the rest decide in round 2): after the 4-signer certificate of
// round 2 is stored, the 3-signer certificate of round 1 finds no signer for its round and replaces it.
func TestVerifF14_SmallerCertificateOfAnotherRoundReplacesStored(t *testing.T) {
	logger := logging.TestLogger(t)
	ks := spectestingutils.Testing4SharesSet()
	share := spectestingutils.TestingShare(ks)
	identifier := spectestingutils.TestingIdentifier

	for _, fullNode := range []bool{false, true} {
		store := &f14Store{}
		cfg := &qbft.Config{
			Signer:  spectestingutils.NewTestingKeyManager(),
			Network: spectestingutils.NewTestingNetwork(),
			Timer:   roundtimer.NewTestingTimer(),
			Storage: store,
			Domain:  spectestingutils.TestingSSVDomainType,
		}
		c := NewController(identifier, share, cfg, fullNode)

		const height = specqbft.Height(5)
		four := spectestingutils.TestingCommitMultiSignerMessageWithParams(
			[]*bls.SecretKey{ks.Shares[1], ks.Shares[2], ks.Shares[3], ks.Shares[4]},
			[]spectypes.OperatorID{1, 2, 3, 4}, 2, height, identifier, spectestingutils.TestingQBFTRootData, spectestingutils.TestingQBFTFullData)
		three := spectestingutils.TestingCommitMultiSignerMessageWithParams(
			[]*bls.SecretKey{ks.Shares[1], ks.Shares[2], ks.Shares[3]},
			[]spectypes.OperatorID{1, 2, 3}, 1, height, identifier, spectestingutils.TestingQBFTRootData, spectestingutils.TestingQBFTFullData)

		decided, err := c.ProcessMsg(logger, four)
		require.NoError(t, err)
		require.NotNil(t, decided)
		stored, err := store.GetHighestInstance(identifier)
		require.NoError(t, err)
		require.Len(t, stored.DecidedMessage.Signers, 4)

		_, err = c.ProcessMsg(logger, three)
		require.NoError(t, err)
		stored, err = store.GetHighestInstance(identifier)
		require.NoError(t, err)
		require.Len(t, stored.DecidedMessage.Signers, 4,
			"the stored 4-signer certificate of height %d was replaced by a 3-signer certificate of another round (fullNode=%v)", height, fullNode)
		if fullNode {
			hist, err := store.GetInstance(identifier, height)
			require.NoError(t, err)
			require.Len(t, hist.DecidedMessage.Signers, 4, "historical record replaced as well")
		}
	}
}
