package validation

// Side findings for C09 (round f): behaviour of the UNCHANGED code that already accepts a
// rule-breaking message. Every test below FAILS on the clean tree.
//
// run (from the repo root):
//   export GOFLAGS=-mod=mod GOPROXY=off GOSUMDB=off GOTOOLCHAIN=local
//   go test -overlay /tmp/quic_ov/ov.json -ldflags=-checklinkname=0 -vet=off -count=1 -run TestSideC09f -v ./message/validation/

import (
	"bytes"
	"testing"
	"time"

	eth2apiv1 "github.com/attestantio/go-eth2-client/api/v1"
	"github.com/attestantio/go-eth2-client/spec/phase0"
	specqbft "github.com/bloxapp/ssv-spec/qbft"
	spectypes "github.com/bloxapp/ssv-spec/types"
	spectestingutils "github.com/bloxapp/ssv-spec/types/testingutils"
	"github.com/ethereum/go-ethereum/common"
	pubsub "github.com/libp2p/go-libp2p-pubsub"
	pspb "github.com/libp2p/go-libp2p-pubsub/pb"
	"github.com/stretchr/testify/require"
	"go.uber.org/zap/zaptest"

	"github.com/bloxapp/ssv/network/commons"
	"github.com/bloxapp/ssv/networkconfig"
	"github.com/bloxapp/ssv/operator/keys"
	"github.com/bloxapp/ssv/operator/storage"
	beaconprotocol "github.com/bloxapp/ssv/protocol/v2/blockchain/beacon"
	ssvtypes "github.com/bloxapp/ssv/protocol/v2/types"
	registrystorage "github.com/bloxapp/ssv/registry/storage"
	"github.com/bloxapp/ssv/storage/basedb"
	"github.com/bloxapp/ssv/storage/kv"
)

func sideC09fEnv(t *testing.T) (*messageValidator, storage.Storage, *ssvtypes.SSVShare, *spectestingutils.TestKeySet) {
	logger := zaptest.NewLogger(t)
	db, err := kv.NewInMemory(logger, basedb.Options{})
	require.NoError(t, err)

	ns, err := storage.NewNodeStorage(logger, db)
	require.NoError(t, err)

	ks := spectestingutils.Testing4SharesSet()
	share := &ssvtypes.SSVShare{
		Share: *spectestingutils.TestingShare(ks),
		Metadata: ssvtypes.Metadata{
			BeaconMetadata: &beaconprotocol.ValidatorMetadata{
				Status: eth2apiv1.ValidatorStateActiveOngoing,
				Index:  123,
			},
		},
	}
	require.NoError(t, ns.Shares().Save(nil, share))

	mv := NewMessageValidator(networkconfig.TestNetwork, WithNodeStorage(ns)).(*messageValidator)
	return mv, ns, share, ks
}

func sideC09fWrap(t *testing.T, share *ssvtypes.SSVShare, role spectypes.BeaconRole, msgType spectypes.MsgType, data []byte) (*pubsub.Message, []byte) {
	ssvMsg := &spectypes.SSVMessage{
		MsgType: msgType,
		MsgID:   spectypes.NewMsgID(networkconfig.TestNetwork.Domain, share.ValidatorPubKey, role),
		Data:    data,
	}
	encoded, err := commons.EncodeNetworkMsg(ssvMsg)
	require.NoError(t, err)

	topic := commons.GetTopicFullName(commons.ValidatorTopicID(share.ValidatorPubKey)[0])
	return &pubsub.Message{Message: &pspb.Message{Topic: &topic, Data: encoded}}, encoded
}

func sideC09fConsensus(t *testing.T, share *ssvtypes.SSVShare, role spectypes.BeaconRole, signed *specqbft.SignedMessage) *pubsub.Message {
	data, err := signed.Encode()
	require.NoError(t, err)
	p, _ := sideC09fWrap(t, share, role, spectypes.SSVConsensusMsgType, data)
	return p
}

func sideC09fPartial(t *testing.T, share *ssvtypes.SSVShare, role spectypes.BeaconRole, signed *spectypes.SignedPartialSignatureMessage) *pubsub.Message {
	data, err := signed.Encode()
	require.NoError(t, err)
	p, _ := sideC09fWrap(t, share, role, spectypes.SSVPartialSignatureMsgType, data)
	return p
}

// (1) Slot window bypass by arithmetic wrap-around.
// GetSlotStartTime computes uint64(slot)*12 without overflow protection, so slot S+2^62 has the same
// start time as slot S (12*2^62 = 3*2^64 == 0 mod 2^64). A consensus message whose height is
// currentSlot+2^62 therefore passes both earlyMessage and lateMessage although its slot is ~4.6e18
// slots in the future. Once accepted it moves the signer's state to that slot, after which every honest
// message of that signer for this validator/role is refused with ErrSlotAlreadyAdvanced.
func TestVerifF20_SlotWindowBypassByHeightOverflow(t *testing.T) {
	mv, _, share, ks := sideC09fEnv(t)
	netCfg := networkconfig.TestNetwork
	role := spectypes.BNRoleAttester

	slot := netCfg.Beacon.FirstSlotAtEpoch(1)
	receivedAt := netCfg.Beacon.GetSlotStartTime(slot).Add(time.Second)

	farFuture := specqbft.Height(uint64(slot) + 1<<62)
	require.True(t, mv.netCfg.Beacon.GetSlotStartTime(phase0.Slot(farFuture)).Equal(netCfg.Beacon.GetSlotStartTime(slot)),
		"the two slots share a start time")

	bad := spectestingutils.TestingPrepareMessageWithParams(ks.Shares[2], 2, 1, farFuture,
		spectestingutils.TestingIdentifier, spectestingutils.TestingQBFTRootData)
	_, _, errBad := mv.validateP2PMessage(sideC09fConsensus(t, share, role, bad), receivedAt)

	honest := spectestingutils.TestingPrepareMessageWithParams(ks.Shares[2], 2, 1, specqbft.Height(slot),
		spectestingutils.TestingIdentifier, spectestingutils.TestingQBFTRootData)
	_, _, errHonest := mv.validateP2PMessage(sideC09fConsensus(t, share, role, honest), receivedAt)

	require.Error(t, errBad, "a message for slot %d was accepted at slot %d (honest follow-up result: %v)", uint64(farFuture), slot, errHonest)
	require.ErrorIs(t, errBad, ErrEarlyMessage)
	require.NoError(t, errHonest)
}

// (2) Partial signature messages are never checked against the slot window of their role:
// validatePartialSignatureMessage has no validateSlotTime call (it does not even receive receivedAt).
// A post-consensus message for a slot 1000 slots in the future, or 1000 slots in the past, is accepted.
func TestVerifObs_C09_PartialSignatureHasNoSlotWindow(t *testing.T) {
	netCfg := networkconfig.TestNetwork
	role := spectypes.BNRoleProposer // window of the role: slot .. slot+3 (+3s)

	slot := netCfg.Beacon.FirstSlotAtEpoch(40)
	receivedAt := netCfg.Beacon.GetSlotStartTime(slot).Add(time.Second)

	t.Run("future slot", func(t *testing.T) {
		mv, _, share, ks := sideC09fEnv(t)
		msg := spectestingutils.PostConsensusAttestationMsg(ks.Shares[1], 1, specqbft.Height(slot))
		msg.Message.Slot = slot + 1000
		_, _, err := mv.validateP2PMessage(sideC09fPartial(t, share, role, msg), receivedAt)
		require.Error(t, err, "partial signature message for slot %d accepted at slot %d", slot+1000, slot)
	})

	t.Run("past slot", func(t *testing.T) {
		mv, _, share, ks := sideC09fEnv(t)
		msg := spectestingutils.PostConsensusAttestationMsg(ks.Shares[1], 1, specqbft.Height(slot))
		msg.Message.Slot = slot - 1000
		_, _, err := mv.validateP2PMessage(sideC09fPartial(t, share, role, msg), receivedAt)
		require.Error(t, err, "partial signature message for slot %d accepted at slot %d", slot-1000, slot)
	})

	t.Run("control: consensus message for the same slots is refused", func(t *testing.T) {
		mv, _, share, ks := sideC09fEnv(t)
		for _, s := range []phase0.Slot{slot + 1000, slot - 1000} {
			m := spectestingutils.TestingPrepareMessageWithParams(ks.Shares[1], 1, 1, specqbft.Height(s),
				spectestingutils.TestingIdentifier, spectestingutils.TestingQBFTRootData)
			_, _, err := mv.validateP2PMessage(sideC09fConsensus(t, share, role, m), receivedAt)
			require.Error(t, err)
		}
	})
}

// (3) The late-message deadline is only enforced with one-slot granularity.
// lateMessage computes deadline = start(slot+ttl) + lateMessageMargin(3s) + clockErrorTolerance(50ms), but
// compares it with the START of the slot the message was received in, not with the receive time. A
// sync-committee message (ttl 3 slots) received 9s after start(slot+3), i.e. ~6s after the deadline,
// is accepted; only at start(slot+4) does it become late.
func TestVerifObs_C09_LateMessagePastDeadlineAccepted(t *testing.T) {
	mv, _, share, ks := sideC09fEnv(t)
	netCfg := networkconfig.TestNetwork
	role := spectypes.BNRoleSyncCommittee

	slot := netCfg.Beacon.FirstSlotAtEpoch(1)
	deadline := netCfg.Beacon.GetSlotStartTime(slot + 1 + lateSlotAllowance).Add(lateMessageMargin).Add(clockErrorTolerance)
	receivedAt := deadline.Add(6 * time.Second) // still inside slot+3

	m := spectestingutils.TestingPrepareMessageWithParams(ks.Shares[1], 1, 1, specqbft.Height(slot),
		spectestingutils.TestingIdentifier, spectestingutils.TestingQBFTRootData)
	_, _, err := mv.validateP2PMessage(sideC09fConsensus(t, share, role, m), receivedAt)
	require.Error(t, err, "message accepted %v after its deadline", receivedAt.Sub(deadline))
	require.ErrorContains(t, err, ErrLateMessage.Error())
}

// (4) The per-slot limit for partial signature messages is 1 (maxMessageCounts), but
// ValidatePartialSignatureMessage compares with '>' where the consensus counterpart uses '>=':
// a second post-consensus message of the same signer for the same slot is accepted, the third is not.
func TestVerifObs_C09_SecondPostConsensusAccepted(t *testing.T) {
	mv, _, share, ks := sideC09fEnv(t)
	netCfg := networkconfig.TestNetwork
	role := spectypes.BNRoleAttester

	slot := netCfg.Beacon.FirstSlotAtEpoch(1)
	receivedAt := netCfg.Beacon.GetSlotStartTime(slot).Add(time.Second)

	msg := spectestingutils.PostConsensusAttestationMsg(ks.Shares[1], 1, specqbft.Height(slot))
	msg.Message.Slot = slot

	_, _, err := mv.validateP2PMessage(sideC09fPartial(t, share, role, msg), receivedAt)
	require.NoError(t, err)
	require.Equal(t, 1, maxMessageCounts(len(share.Committee)).PostConsensus)

	_, _, err = mv.validateP2PMessage(sideC09fPartial(t, share, role, msg), receivedAt)
	require.Error(t, err, "second post-consensus message of signer 1 for the same slot accepted (limit 1)")
	require.ErrorContains(t, err, ErrTooManySameTypeMessagesPerRound.Error())
}

// (5) "has any attached full data matching its root": hasFullData only looks at proposals, round changes
// and decided messages, so a prepare (or single-signer commit) carrying arbitrary bytes in FullData that
// do not hash to its root is accepted and relayed (up to the 8MB message limit).
func TestVerifObs_C09_PrepareWithMismatchingFullData(t *testing.T) {
	mv, _, share, ks := sideC09fEnv(t)
	netCfg := networkconfig.TestNetwork
	role := spectypes.BNRoleAttester

	slot := netCfg.Beacon.FirstSlotAtEpoch(1)
	receivedAt := netCfg.Beacon.GetSlotStartTime(slot).Add(time.Second)

	m := spectestingutils.TestingPrepareMessageWithParams(ks.Shares[1], 1, 1, specqbft.Height(slot),
		spectestingutils.TestingIdentifier, spectestingutils.TestingQBFTRootData)
	m.FullData = bytes.Repeat([]byte{0xAB}, 4096)
	h, err := specqbft.HashDataRoot(m.FullData)
	require.NoError(t, err)
	require.NotEqual(t, h, m.Message.Root)

	_, _, err = mv.validateP2PMessage(sideC09fConsensus(t, share, role, m), receivedAt)
	require.Error(t, err, "prepare with 4096 bytes of full data that do not match its root was accepted")
}

// (6) Beyond the literal statement (kept for the record): after the signed-envelope fork the envelope's
// operator ID is never related to the signer(s) inside the message. Any registered operator - here
// operator 77, not a member of the committee - can wrap a message that names committee member 2 as signer.
func TestVerifObs_C09_EnvelopeOperatorUnrelatedToSigner(t *testing.T) {
	mv, ns, share, ks := sideC09fEnv(t)
	netCfg := networkconfig.TestNetwork
	role := spectypes.BNRoleAttester

	afterFork := netCfg.PermissionlessActivationEpoch + 1000
	slot := netCfg.Beacon.FirstSlotAtEpoch(afterFork)
	receivedAt := netCfg.Beacon.GetSlotStartTime(slot).Add(time.Second)

	privKey, err := keys.GeneratePrivateKey()
	require.NoError(t, err)
	pubKey, err := privKey.Public().Base64()
	require.NoError(t, err)
	const outsider = spectypes.OperatorID(77)
	_, err = ns.SaveOperatorData(nil, &registrystorage.OperatorData{ID: outsider, PublicKey: pubKey, OwnerAddress: common.Address{}})
	require.NoError(t, err)

	m := spectestingutils.TestingPrepareMessageWithParams(ks.Shares[2], 2, 1, specqbft.Height(slot),
		spectestingutils.TestingIdentifier, spectestingutils.TestingQBFTRootData)
	data, err := m.Encode()
	require.NoError(t, err)
	p, encoded := sideC09fWrap(t, share, role, spectypes.SSVConsensusMsgType, data)
	sig, err := privKey.Sign(encoded)
	require.NoError(t, err)
	p.Message.Data = commons.EncodeSignedSSVMessage(encoded, outsider, sig)

	_, _, err = mv.validateP2PMessage(p, receivedAt)
	require.Error(t, err, "message naming signer 2 accepted inside an envelope signed by non-committee operator %d", outsider)
}
