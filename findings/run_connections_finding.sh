#!/bin/bash
# usage: run_connections_finding.sh [repo] [test file] [package dir]  -- compiles a finding test into a network package
# through a go overlay: the package's own tests are blanked and the two quic-go files that do not compile offline are
# replaced for the test build only (engine/replay_ov).
set -eu
HERE=$(cd "$(dirname "$0")" && pwd)
REPO=$(cd "${1:-/repo}" && pwd)
TEST=${2:-$HERE/F7_short_subnets_crash_test.go}
PKG=${3:-network/peers/connections}
PKGNAME=$(grep -m1 '^package ' "$TEST" | awk '{print $2}')
export GOFLAGS=-mod=mod GOPROXY=off GOSUMDB=off GOTOOLCHAIN=local
MC=$(go env GOMODCACHE)
TMP=$(mktemp -d "${TMPDIR:-/var/tmp}/netfinding.XXXXXX")
trap 'rm -rf "$TMP"' EXIT
echo "package $PKGNAME" > "$TMP/blank_test.go"
{
  echo '{ "Replace": {'
  for f in "$REPO/$PKG"/*_test.go; do [ -e "$f" ] && echo "  \"$f\": \"$TMP/blank_test.go\","; done
  echo "  \"$MC/github.com/quic-go/quic-go@v0.33.0/internal/qtls/go121.go\": \"$HERE/../engine/replay_ov/qtls_go121.go\","
  echo "  \"$MC/github.com/quic-go/qtls-go1-20@v0.2.3/unsafe.go\": \"$HERE/../engine/replay_ov/qtls20_unsafe.go\","
  echo "  \"$REPO/$PKG/zz_verif_finding_test.go\": \"$TEST\""
  echo '} }'
} > "$TMP/ov.json"
cd "$REPO"
go test -vet=off -count=1 -timeout 600s -overlay "$TMP/ov.json" -run 'TestVerifF' -v "./$PKG/"
