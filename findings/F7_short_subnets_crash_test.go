package connections

// Finding F7 (property C08: no input from a peer makes the node panic - "... the decoders of signed envelopes, node
// records and handshake payloads"; C18 anchors network/records/subnets.go).
//
// A peer's handshake NodeInfo carries its subnets as a hex string. handshaker.updateNodeSubnets parses it with
// records.Subnets.FromString - which accepts a string of ANY length - and stores the result for the peer. When the
// connection handler then asks whether the peer shares enough subnets, records.SharedSubnets(mySubnets, peerSubnets, 1)
// walks over this node's 128 entries and indexes the peer's vector at the same positions: a peer that advertised a
// short string (here "00": 8 entries, none shared) makes the node panic with index out of range.
//
// Found by the verifier as the refuted obligation records.SharedSubnets.safety.index (model a=[24 251 0] b=[25]
// maxLen=2, replayed automatically on the real function); this test shows the path from the handshake payload.
// Run: /verif/findings/run_finding.sh network/peers/connections F7_short_subnets_crash_test.go  (needs the quic overlay:
// use /verif/findings/run_connections_finding.sh)

import (
	"testing"

	"github.com/libp2p/go-libp2p/core/peer"
	"go.uber.org/zap"

	"github.com/bloxapp/ssv/network/peers"
	"github.com/bloxapp/ssv/network/peers/connections/mock"
	"github.com/bloxapp/ssv/network/records"
)

func TestVerifF7ShortSubnetsFromHandshakeDoNotCrash(t *testing.T) {
	idx := peers.NewSubnetsIndex(128)
	mine, _ := records.Subnets{}.FromString(records.AllSubnets) // this node subscribes to every subnet
	h := &handshaker{subnetsIdx: idx}
	ch := &connHandler{subnetsIndex: idx, subnetsProvider: func() records.Subnets { return mine }}

	pid := peer.ID("12D3KooWVerifF7Peer")
	// what the peer put into its handshake payload
	ni := &records.NodeInfo{Metadata: &records.NodeMetadata{Subnets: "00"}}

	h.updateNodeSubnets(zap.NewNop(), pid, ni)
	if got := len(idx.GetPeerSubnets(pid)); got != 8 {
		t.Fatalf("setup: expected the 8 advertised entries to be stored, got %d", got)
	}

	defer func() {
		if r := recover(); r != nil {
			t.Fatalf("C08 violated: a peer advertising subnets %q in its handshake crashes the connection handler: %v", ni.Metadata.Subnets, r)
		}
	}()
	_ = ch.sharesEnoughSubnets(zap.NewNop(), mock.Conn{MockPeerID: pid})
}
