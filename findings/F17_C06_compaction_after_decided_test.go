package instance

// Side findings for property C06 on the UNCHANGED tree (all three tests FAIL on the clean code).
// Place in protocol/v2/qbft/instance/ and run:
//   go test -vet=off -count=1 -run 'TestSideC06' ./protocol/v2/qbft/instance/

import (
	"bytes"
	"testing"

	specqbft "github.com/bloxapp/ssv-spec/qbft"
	spectypes "github.com/bloxapp/ssv-spec/types"
	"github.com/bloxapp/ssv-spec/types/testingutils"
	"github.com/stretchr/testify/require"
	"go.uber.org/zap"

	"github.com/bloxapp/ssv/protocol/v2/qbft"
	"github.com/bloxapp/ssv/protocol/v2/qbft/roundtimer"
)

type sideC06Pair struct {
	t       *testing.T
	node    *Instance
	ref     *specqbft.Instance
	nodeNet *testingutils.TestingNetwork
	refNet  *testingutils.TestingNetwork
	// compactAfter mimics BaseRunner.compactInstanceIfNeeded: the node compacts the instance state after
	// processing a round-change message (or a decided message).
	compactAfterRC bool
}

func newSideC06Pair(t *testing.T, ks *testingutils.TestKeySet) *sideC06Pair {
	refCfg := testingutils.TestingConfig(ks)
	refNet := refCfg.Network.(*testingutils.TestingNetwork)
	nodeNet := testingutils.NewTestingNetwork()
	nodeCfg := &qbft.Config{
		Signer:                testingutils.NewTestingKeyManager(),
		SigningPK:             ks.Shares[1].GetPublicKey().Serialize(),
		Domain:                testingutils.TestingSSVDomainType,
		ValueCheckF:           refCfg.ValueCheckF,
		ProposerF:             refCfg.ProposerF,
		Network:               nodeNet,
		Timer:                 roundtimer.NewTestingTimer(),
		SignatureVerification: true,
	}
	node := NewInstance(nodeCfg, testingutils.TestingShare(ks), testingutils.TestingIdentifier, specqbft.FirstHeight)
	ref := specqbft.NewInstance(refCfg, testingutils.TestingShare(ks), testingutils.TestingIdentifier, specqbft.FirstHeight)
	p := &sideC06Pair{t: t, node: node, ref: ref, nodeNet: nodeNet, refNet: refNet}
	node.Start(zap.NewNop(), testingutils.TestingQBFTFullData, specqbft.FirstHeight)
	ref.Start(testingutils.TestingQBFTFullData, specqbft.FirstHeight)
	p.compareBroadcasts("start")
	return p
}

func (p *sideC06Pair) feed(step string, msg *specqbft.SignedMessage) (nodeAgg, refAgg *specqbft.SignedMessage) {
	nd, nv, nagg, nerr := p.node.ProcessMsg(zap.NewNop(), cloneSideC06(p.t, msg))
	rd, rv, ragg, rerr := p.ref.ProcessMsg(cloneSideC06(p.t, msg))
	if p.compactAfterRC && msg.Message.MsgType == specqbft.RoundChangeMsgType {
		Compact(p.node.State, msg)
	}
	require.Equalf(p.t, rerr == nil, nerr == nil, "%s: accept/reject differs: reference err=%v, node err=%v", step, rerr, nerr)
	require.Equalf(p.t, rd, nd, "%s: decided flag differs", step)
	require.Truef(p.t, bytes.Equal(rv, nv), "%s: decided value differs", step)
	require.Equalf(p.t, ragg == nil, nagg == nil, "%s: aggregated commit presence differs", step)
	p.compareBroadcasts(step)
	return nagg, ragg
}

// cloneSideC06 gives each instance its own copy of the message (SignedMessage.DeepCopy drops FullData).
func cloneSideC06(t *testing.T, msg *specqbft.SignedMessage) *specqbft.SignedMessage {
	byts, err := msg.Encode()
	require.NoError(t, err)
	ret := &specqbft.SignedMessage{}
	require.NoError(t, ret.Decode(byts))
	return ret
}

func (p *sideC06Pair) timeout(step string) {
	nerr := p.node.UponRoundTimeout(zap.NewNop())
	rerr := p.ref.UponRoundTimeout()
	require.Equalf(p.t, rerr == nil, nerr == nil, "%s: timeout result differs: reference err=%v, node err=%v", step, rerr, nerr)
	p.compareBroadcasts(step)
}

func (p *sideC06Pair) compareBroadcasts(step string) {
	require.Equalf(p.t, len(p.refNet.BroadcastedMsgs), len(p.nodeNet.BroadcastedMsgs),
		"%s: number of broadcasts differs (reference %d, node %d)", step, len(p.refNet.BroadcastedMsgs), len(p.nodeNet.BroadcastedMsgs))
	for i := range p.refNet.BroadcastedMsgs {
		rb, err := p.refNet.BroadcastedMsgs[i].Encode()
		require.NoError(p.t, err)
		nb, err := p.nodeNet.BroadcastedMsgs[i].Encode()
		require.NoError(p.t, err)
		if !bytes.Equal(rb, nb) {
			rm, nm := &specqbft.SignedMessage{}, &specqbft.SignedMessage{}
			require.NoError(p.t, rm.Decode(p.refNet.BroadcastedMsgs[i].Data))
			require.NoError(p.t, nm.Decode(p.nodeNet.BroadcastedMsgs[i].Data))
			require.Failf(p.t, "broadcast differs", "%s: broadcast %d differs: reference type=%d round=%d dataRound=%d #rcJustifications=%d; node type=%d round=%d dataRound=%d #rcJustifications=%d",
				step, i,
				rm.Message.MsgType, rm.Message.Round, rm.Message.DataRound, len(rm.Message.RoundChangeJustification),
				nm.Message.MsgType, nm.Message.Round, nm.Message.DataRound, len(nm.Message.RoundChangeJustification))
		}
	}
}

// decideRound1 drives both instances through a complete round 1 (node = operator 1 = leader).
// commitOrder gives the order in which the peers' commit messages arrive.
func (p *sideC06Pair) decideRound1(ks *testingutils.TestKeySet, commitOrder []spectypes.OperatorID) (nodeAgg, refAgg *specqbft.SignedMessage) {
	p.feed("proposal", testingutils.TestingProposalMessage(ks.Shares[1], 1))
	for _, id := range []spectypes.OperatorID{1, 2, 3} {
		p.feed("prepare", testingutils.TestingPrepareMessage(ks.Shares[id], id))
	}
	for _, id := range commitOrder {
		nodeAgg, refAgg = p.feed("commit", testingutils.TestingCommitMessage(ks.Shares[id], id))
	}
	require.True(p.t, p.ref.State.Decided)
	require.True(p.t, p.node.State.Decided)
	return nodeAgg, refAgg
}

// Finding 1: the aggregated commit (4th return value of ProcessMsg, which the controller broadcasts as the
// decided message) is not the one the reference produces when the commits do not arrive in ascending
// operator-id order: the node sorts Signers (commit.go, "TODO: REWRITE THIS!"), the reference keeps arrival order.
func TestVerifObs_C06_AggregatedCommitSignerOrder(t *testing.T) {
	ks := testingutils.Testing4SharesSet()
	p := newSideC06Pair(t, ks)
	nodeAgg, refAgg := p.decideRound1(ks, []spectypes.OperatorID{4, 3, 2})
	require.NotNil(t, nodeAgg)
	require.NotNil(t, refAgg)

	nb, err := nodeAgg.Encode()
	require.NoError(t, err)
	rb, err := refAgg.Encode()
	require.NoError(t, err)
	require.Equalf(t, refAgg.Signers, nodeAgg.Signers, "aggregated commit signers differ")
	require.Truef(t, bytes.Equal(rb, nb), "encoded aggregated commit differs")
}

// Finding 2: compaction changes a later output. After the instance decided, the runner's compaction rule
// (compact after every round-change message; Decided => clear proposal/prepare/round-change containers)
// throws away each peer round change right after it was counted, so f+1 round changes never accumulate:
// the reference follows the f+1 speed-up (moves to round 2, broadcasts a round change), the node does nothing.
func TestVerifF17_C06_CompactionAfterDecidedLosesRoundChanges(t *testing.T) {
	ks := testingutils.Testing4SharesSet()
	p := newSideC06Pair(t, ks)
	p.decideRound1(ks, []spectypes.OperatorID{1, 2, 3})
	p.compactAfterRC = true

	p.feed("rc r2 from 2", testingutils.TestingRoundChangeMessageWithRound(ks.Shares[2], 2, 2))
	p.feed("rc r2 from 3", testingutils.TestingRoundChangeMessageWithRound(ks.Shares[3], 3, 2))
}

// Finding 3: same cause, other output. One peer round change after the decision triggers the compaction
// (prepare container cleared because Decided); the node's own next round-change message (on timeout) then
// claims a prepared round/value but carries no prepare justifications, while the reference attaches the quorum
// of prepares.
func TestVerifF17_C06_CompactionAfterDecidedDropsRoundChangeJustification(t *testing.T) {
	ks := testingutils.Testing4SharesSet()
	p := newSideC06Pair(t, ks)
	p.decideRound1(ks, []spectypes.OperatorID{1, 2, 3})
	p.compactAfterRC = true

	p.feed("rc r2 from 2", testingutils.TestingRoundChangeMessageWithRound(ks.Shares[2], 2, 2))
	p.timeout("timeout round 1")
}
