package storage_test

// Finding F5 (property C11): "The result does not depend on how events are batched into blocks."
//
// operatorsStorage.SaveOperatorData(rw, od) keeps the first record of an operator id ("operator already exist") - but
// it looked the id up with a nil reader, i.e. in the committed database and not in the transaction it is about to
// write through. All events of one block are applied in one transaction, so two OperatorAdded events for the same
// operator id in ONE block both "did not exist yet" and the second overwrote the first, while the same two events in
// TWO blocks keep the first. The persisted operator depends on the batching.
//
// Run: cp this file into registry/storage/ and `go test -vet=off -run TestVerifF5 ./registry/storage/`
// (or through an overlay: /verif/findings/run_finding.sh registry/storage F5_operator_added_batching_test.go).
// Failed obligation of the verifier: (*storage.operatorsStorage).SaveOperatorData.existence_checked_in_the_same_transaction.

import (
	"testing"

	"github.com/ethereum/go-ethereum/common"
	"go.uber.org/zap"

	"github.com/bloxapp/ssv/registry/storage"
	"github.com/bloxapp/ssv/storage/basedb"
	"github.com/bloxapp/ssv/storage/kv"
)

func verifF5Apply(t *testing.T, blocks [][]storage.OperatorData) []byte {
	t.Helper()
	db, err := kv.NewInMemory(zap.NewNop(), basedb.Options{})
	if err != nil {
		t.Fatal(err)
	}
	defer db.Close()
	s := storage.NewOperatorsStorage(zap.NewNop(), db, []byte("test"))
	for _, block := range blocks {
		txn := db.Begin() // one transaction per block, as in EventHandler.processBlockEvents
		for i := range block {
			od := block[i]
			if _, err := s.SaveOperatorData(txn, &od); err != nil {
				t.Fatal(err)
			}
		}
		if err := txn.Commit(); err != nil {
			t.Fatal(err)
		}
	}
	got, found, err := s.GetOperatorData(nil, 1)
	if err != nil || !found {
		t.Fatalf("operator 1 not stored: %v %v", found, err)
	}
	return got.PublicKey
}

func TestVerifF5OperatorAddedDoesNotDependOnBatching(t *testing.T) {
	first := storage.OperatorData{ID: 1, PublicKey: []byte("public-key-of-the-first-event"), OwnerAddress: common.Address{1}}
	second := storage.OperatorData{ID: 1, PublicKey: []byte("public-key-of-the-second-event"), OwnerAddress: common.Address{2}}

	twoBlocks := verifF5Apply(t, [][]storage.OperatorData{{first}, {second}})
	oneBlock := verifF5Apply(t, [][]storage.OperatorData{{first, second}})

	if string(twoBlocks) != string(first.PublicKey) {
		t.Fatalf("two blocks: stored %q, want the first event's key", twoBlocks)
	}
	if string(oneBlock) != string(twoBlocks) {
		t.Errorf("C11 violated: the same two OperatorAdded events leave operator 1 with key %q when they share a block and %q when they do not", oneBlock, twoBlocks)
	}
}
