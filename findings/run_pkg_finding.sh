#!/bin/bash
# usage: run_pkg_finding.sh <package dir relative to the repo> <test file in /verif/findings> [repo]
# Compiles a finding test into the package NEXT TO the package's own tests (their helpers are used) through a go overlay;
# the two quic-go files that do not compile offline are replaced for the test build only (engine/replay_ov).
set -eu
HERE=$(cd "$(dirname "$0")" && pwd)
PKG="$1"; TEST="$HERE/$2"; REPO=$(cd "${3:-/repo}" && pwd)
export GOFLAGS=-mod=mod GOPROXY=off GOSUMDB=off GOTOOLCHAIN=local
MC=$(go env GOMODCACHE)
TMP=$(mktemp -d "${TMPDIR:-/var/tmp}/pkgfinding.XXXXXX")
trap 'rm -rf "$TMP"' EXIT
cat > "$TMP/ov.json" <<JSON
{ "Replace": {
  "$MC/github.com/quic-go/quic-go@v0.33.0/internal/qtls/go121.go": "$HERE/../engine/replay_ov/qtls_go121.go",
  "$MC/github.com/quic-go/qtls-go1-20@v0.2.3/unsafe.go": "$HERE/../engine/replay_ov/qtls20_unsafe.go",
  "$REPO/$PKG/zz_verif_finding_test.go": "$TEST"
} }
JSON
cd "$REPO"
go test -vet=off -count=1 -timeout 900s -ldflags=-checklinkname=0 -overlay "$TMP/ov.json" -run 'TestVerifF' -v "./$PKG/"
