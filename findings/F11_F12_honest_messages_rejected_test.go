package validation

import (
	"testing"

	eth2apiv1 "github.com/attestantio/go-eth2-client/api/v1"
	"github.com/attestantio/go-eth2-client/spec/phase0"
	specqbft "github.com/bloxapp/ssv-spec/qbft"
	spectypes "github.com/bloxapp/ssv-spec/types"
	spectestingutils "github.com/bloxapp/ssv-spec/types/testingutils"
	"github.com/stretchr/testify/require"
	"go.uber.org/zap"
	"go.uber.org/zap/zaptest"

	"github.com/bloxapp/ssv/networkconfig"
	"github.com/bloxapp/ssv/operator/storage"
	beaconprotocol "github.com/bloxapp/ssv/protocol/v2/blockchain/beacon"
	"github.com/bloxapp/ssv/protocol/v2/qbft"
	"github.com/bloxapp/ssv/protocol/v2/qbft/controller"
	"github.com/bloxapp/ssv/protocol/v2/qbft/roundtimer"
	qbfttesting "github.com/bloxapp/ssv/protocol/v2/qbft/testing"
	"github.com/bloxapp/ssv/protocol/v2/ssv/runner"
	ssvtypes "github.com/bloxapp/ssv/protocol/v2/types"
	"github.com/bloxapp/ssv/storage/basedb"
	"github.com/bloxapp/ssv/storage/kv"
)

type sideBroadcast struct {
	sender spectypes.OperatorID
	msg    *spectypes.SSVMessage
}

type sideNetwork struct {
	*spectestingutils.TestingNetwork
	sender spectypes.OperatorID
	log    *[]sideBroadcast
}

func (n *sideNetwork) Broadcast(msg *spectypes.SSVMessage) error {
	*n.log = append(*n.log, sideBroadcast{sender: n.sender, msg: msg})
	return nil
}

// Unchanged code: operator 1 prepared X in round 1 and says so in its round-change for round 2 (FullData = X).
// The round-2 leader gets its round-change quorum from 2,3,4 (unprepared) and proposes Y.
// Everybody, operator 1 included, prepares and commits Y. The decided message (signers incl. 1, FullData Y) is
// rejected with ErrDuplicatedProposalWithDifferentData because operator 1's "ProposalData" was taken from its round change.
func TestVerifF11PreparedRoundChangeThenDecidedOtherValue(t *testing.T) {
	logger := zaptest.NewLogger(t, zaptest.Level(zap.ErrorLevel))

	db, err := kv.NewInMemory(logger, basedb.Options{})
	require.NoError(t, err)
	ns, err := storage.NewNodeStorage(logger, db)
	require.NoError(t, err)

	ks := spectestingutils.Testing4SharesSet()
	share := &ssvtypes.SSVShare{
		Share: *spectestingutils.TestingShare(ks),
		Metadata: ssvtypes.Metadata{
			BeaconMetadata: &beaconprotocol.ValidatorMetadata{Status: eth2apiv1.ValidatorStateActiveOngoing, Index: 123},
		},
	}
	require.NoError(t, ns.Shares().Save(nil, share))

	netCfg := networkconfig.TestNetwork
	role := spectypes.BNRoleAttester

	slot := netCfg.Beacon.FirstSlotAtEpoch(1)
	for uint64(slot)%4 != 1 { // round-1 leader operator 2, round-2 leader operator 3
		slot++
	}
	height := specqbft.Height(slot)
	msgID := spectypes.NewMsgID(netCfg.Domain, share.ValidatorPubKey, role)

	var broadcasts []sideBroadcast
	ctrls := map[spectypes.OperatorID]*controller.Controller{}
	for id := spectypes.OperatorID(1); id <= 4; id++ {
		cfg := &qbft.Config{
			Signer:      spectestingutils.NewTestingKeyManager(),
			SigningPK:   ks.Shares[id].GetPublicKey().Serialize(),
			Domain:      spectestingutils.TestingSSVDomainType,
			ValueCheckF: func([]byte) error { return nil },
			ProposerF: func(state *specqbft.State, round specqbft.Round) spectypes.OperatorID {
				return specqbft.RoundRobinProposer(state, round)
			},
			Storage:               qbfttesting.TestingStores(logger).Get(role),
			Network:               &sideNetwork{TestingNetwork: spectestingutils.NewTestingNetwork(), sender: id, log: &broadcasts},
			Timer:                 roundtimer.NewTestingTimer(),
			SignatureVerification: true,
		}
		opShare := &spectypes.Share{
			OperatorID:      id,
			ValidatorPubKey: ks.ValidatorPK.Serialize(),
			SharePubKey:     ks.Shares[id].GetPublicKey().Serialize(),
			DomainType:      spectestingutils.TestingSSVDomainType,
			Quorum:          ks.Threshold,
			PartialQuorum:   ks.PartialThreshold,
			Committee:       ks.Committee(),
		}
		ctrls[id] = controller.NewController(msgID[:], opShare, cfg, false)
	}

	decode := func(m *spectypes.SSVMessage) *specqbft.SignedMessage {
		sm := &specqbft.SignedMessage{}
		require.NoError(t, sm.Decode(m.Data))
		return sm
	}
	deliver := func(idx int, to ...spectypes.OperatorID) {
		for _, id := range to {
			_, err := ctrls[id].ProcessMsg(logger, decode(broadcasts[idx].msg))
			require.NoError(t, err, "operator %d processing broadcast #%d", id, idx)
		}
	}
	find := func(sender spectypes.OperatorID, msgType specqbft.MessageType, round specqbft.Round, signers int) int {
		for i, b := range broadcasts {
			sm := decode(b.msg)
			if b.sender == sender && sm.Message.MsgType == msgType && sm.Message.Round == round && len(sm.Signers) == signers {
				return i
			}
		}
		t.Fatalf("operator %d did not broadcast the expected message (type %d, round %d, %d signers)", sender, msgType, round, signers)
		return -1
	}

	// every operator has its own input value (e.g. a different view of the head)
	for id := spectypes.OperatorID(1); id <= 4; id++ {
		require.NoError(t, ctrls[id].StartNewInstance(logger, height, []byte{0xAA, byte(id)}))
	}

	// round 1: operator 2 proposes X, all prepare; only operator 1 sees a prepare quorum
	deliver(find(2, specqbft.ProposalMsgType, 1, 1), 1, 2, 3, 4)
	deliver(find(1, specqbft.PrepareMsgType, 1, 1), 1)
	deliver(find(2, specqbft.PrepareMsgType, 1, 1), 1, 2)
	deliver(find(3, specqbft.PrepareMsgType, 1, 1), 1, 3)
	find(1, specqbft.CommitMsgType, 1, 1) // operator 1 prepared and committed X

	// round 1 times out everywhere
	for id := spectypes.OperatorID(1); id <= 4; id++ {
		require.NoError(t, ctrls[id].StoredInstances.FindInstance(height).UponRoundTimeout(logger))
	}
	rc1 := decode(broadcasts[find(1, specqbft.RoundChangeMsgType, 2, 1)].msg)
	require.True(t, rc1.Message.RoundChangePrepared())
	require.Equal(t, []byte{0xAA, 2}, rc1.FullData)

	// round 2: leader (operator 3) gets the round changes of 2,3,4 first and proposes its own value Y
	deliver(find(2, specqbft.RoundChangeMsgType, 2, 1), 3)
	deliver(find(3, specqbft.RoundChangeMsgType, 2, 1), 3)
	deliver(find(4, specqbft.RoundChangeMsgType, 2, 1), 3)
	prop2 := find(3, specqbft.ProposalMsgType, 2, 1)
	require.Equal(t, []byte{0xAA, 3}, decode(broadcasts[prop2].msg).FullData)
	deliver(find(1, specqbft.RoundChangeMsgType, 2, 1), 3)

	// everybody accepts, prepares, commits, decides
	deliver(prop2, 1, 2, 3, 4)
	for id := spectypes.OperatorID(1); id <= 4; id++ {
		deliver(find(id, specqbft.PrepareMsgType, 2, 1), 1, 2, 3, 4)
	}
	for id := spectypes.OperatorID(1); id <= 4; id++ {
		deliver(find(id, specqbft.CommitMsgType, 2, 1), 1, 2, 3, 4)
	}
	find(1, specqbft.CommitMsgType, 2, 3)

	validator := NewMessageValidator(netCfg, WithNodeStorage(ns)).(*messageValidator)
	slotStart := netCfg.Beacon.GetSlotStartTime(phase0.Slot(height))
	for i, b := range broadcasts {
		sm := decode(b.msg)
		// round 1 lasts until slotStart+4s+2s for the attester role
		receivedAt := slotStart.Add(validator.waitAfterSlotStart(role))
		if sm.Message.Round == 2 {
			receivedAt = receivedAt.Add(roundtimer.QuickTimeout)
		}
		_, _, err := validator.validateSSVMessage(b.msg, receivedAt, nil)
		require.NoError(t, err,
			"broadcast #%d of honest operator %d (qbft type %d, round %d, signers %v) was not accepted",
			i, b.sender, sm.Message.MsgType, sm.Message.Round, sm.Signers)
	}
}

// beacon node answering SyncCommitteeSubnetID like beacon/goclient does
type sideBeacon struct {
	*spectestingutils.TestingBeaconNode
}

func (b *sideBeacon) SyncCommitteeSubnetID(index phase0.CommitteeIndex) (uint64, error) {
	const syncCommitteeSize, syncCommitteeSubnetCount = 512, 4
	return uint64(index) / (syncCommitteeSize / syncCommitteeSubnetCount), nil
}

// Unchanged code: a validator that holds two seats of the same sync sub-committee.
func TestVerifF12ContributionProofsSameSubcommitteeTwice(t *testing.T) {
	logger := zaptest.NewLogger(t, zaptest.Level(zap.ErrorLevel))

	db, err := kv.NewInMemory(logger, basedb.Options{})
	require.NoError(t, err)
	ns, err := storage.NewNodeStorage(logger, db)
	require.NoError(t, err)

	netCfg := networkconfig.TestNetwork
	ks := spectestingutils.Testing4SharesSet()
	share := &ssvtypes.SSVShare{
		Share: *spectestingutils.TestingShare(ks),
		Metadata: ssvtypes.Metadata{
			BeaconMetadata: &beaconprotocol.ValidatorMetadata{Status: eth2apiv1.ValidatorStateActiveOngoing, Index: 123},
		},
	}
	share.DomainType = netCfg.Domain
	require.NoError(t, ns.Shares().Save(nil, share))

	role := spectypes.BNRoleSyncCommitteeContribution
	identifier := spectypes.NewMsgID(netCfg.Domain, share.ValidatorPubKey, role)
	net := spectestingutils.NewTestingNetwork()
	km := spectestingutils.NewTestingKeyManager()
	config := qbfttesting.TestingConfig(logger, ks, role)
	config.Network = net
	ctrl := qbfttesting.NewTestingQBFTController(identifier[:], &share.Share, config, false)

	r := runner.NewSyncCommitteeAggregatorRunner(
		spectypes.BeaconTestNetwork,
		&share.Share,
		ctrl,
		&sideBeacon{spectestingutils.NewTestingBeaconNode()},
		net,
		km,
		func([]byte) error { return nil },
		0,
	)

	slot := netCfg.Beacon.FirstSlotAtEpoch(1)
	for _, tc := range []struct {
		name    string
		indices []uint64
	}{
		{"different sub-committees", []uint64{5, 200}},
		{"same sub-committee", []uint64{5, 77}},
	} {
		name, indices := tc.name, tc.indices
		net.BroadcastedMsgs = nil
		duty := &spectypes.Duty{
			Type:                          role,
			PubKey:                        phase0.BLSPubKey(share.ValidatorPubKey),
			Slot:                          slot,
			ValidatorIndex:                123,
			ValidatorSyncCommitteeIndices: indices,
		}
		require.NoError(t, r.StartNewDuty(logger, duty))
		require.Len(t, net.BroadcastedMsgs, 1)

		validator := NewMessageValidator(netCfg, WithNodeStorage(ns)).(*messageValidator)
		receivedAt := netCfg.Beacon.GetSlotStartTime(slot).Add(validator.waitAfterSlotStart(role))
		_, _, err := validator.validateSSVMessage(net.BroadcastedMsgs[0], receivedAt, nil)
		require.NoError(t, err, "%s (sync committee indices %v): honest contribution-proofs message not accepted", name, indices)
		slot++
	}
}
