package queue

// Demonstration of finding F1 (property C14): on the tree before the "fix:" commit, pop() with a filter that
// does not admit the head unlinks and drops the head and returns nil although an admissible message is queued.
// Run: go test -overlay <overlay mapping this file into protocol/v2/ssv/queue> -vet=off -run TestVerifF1 ./protocol/v2/ssv/queue

import (
	"testing"

	spectypes "github.com/bloxapp/ssv-spec/types"
)

type verifNeverPrior struct{}

func (verifNeverPrior) Prior(a, b *DecodedSSVMessage) bool { return false }

func TestVerifF1(t *testing.T) {
	q := New(8)
	a := &DecodedSSVMessage{SSVMessage: &spectypes.SSVMessage{MsgType: 1}}
	b := &DecodedSSVMessage{SSVMessage: &spectypes.SSVMessage{MsgType: 2}}
	q.Push(a) // tail
	q.Push(b) // head after readInbox
	onlyA := func(m *DecodedSSVMessage) bool { return m == a }
	got := q.TryPop(verifNeverPrior{}, onlyA)
	if got != a {
		t.Errorf("pop returned %v although admissible message a is queued", got)
	}
	if got == nil && q.Len() != 2 {
		t.Errorf("pop returned nil and discarded a message: Len()=%d, want 2", q.Len())
	}
}
