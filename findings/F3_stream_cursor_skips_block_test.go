package executionclient

import (
	"context"
	"errors"
	"math/big"
	"net/http/httptest"
	"sync"
	"testing"
	"time"

	ethcommon "github.com/ethereum/go-ethereum/common"
	"github.com/ethereum/go-ethereum/common/hexutil"
	ethtypes "github.com/ethereum/go-ethereum/core/types"
	"github.com/ethereum/go-ethereum/rpc"
	"github.com/stretchr/testify/require"
	"go.uber.org/zap/zaptest"
)

// verifF3Eth is a minimal fake "eth" JSON-RPC namespace:
//   - eth_getLogs answers from a fixed per-block table of logs and fails exactly once
//     for the query whose fromBlock equals failOnceFrom (a transient node error);
//   - eth_subscribe("newHeads") registers a subscriber; the test pushes heads by hand.
type verifF3Eth struct {
	mu           sync.Mutex
	byBlock      map[uint64][]ethtypes.Log
	failOnceFrom uint64
	failed       bool
	queries      [][2]uint64
	subs         []chan uint64
	failSubs     int // number of newHeads subscriptions to refuse first
	refused      int
}

type verifF3FilterArg struct {
	FromBlock *hexutil.Big `json:"fromBlock"`
	ToBlock   *hexutil.Big `json:"toBlock"`
}

func (s *verifF3Eth) GetLogs(_ context.Context, q verifF3FilterArg) ([]ethtypes.Log, error) {
	from, to := q.FromBlock.ToInt().Uint64(), q.ToBlock.ToInt().Uint64()
	s.mu.Lock()
	defer s.mu.Unlock()
	s.queries = append(s.queries, [2]uint64{from, to})
	if !s.failed && from == s.failOnceFrom {
		s.failed = true
		return nil, errors.New("seed: transient eth_getLogs failure")
	}
	out := []ethtypes.Log{}
	for b := from; b <= to; b++ {
		out = append(out, s.byBlock[b]...)
	}
	return out, nil
}

func (s *verifF3Eth) NewHeads(ctx context.Context) (*rpc.Subscription, error) {
	notifier, supported := rpc.NotifierFromContext(ctx)
	if !supported {
		return nil, rpc.ErrNotificationsUnsupported
	}
	s.mu.Lock()
	if s.refused < s.failSubs {
		s.refused++
		s.mu.Unlock()
		return nil, errors.New("verif: newHeads subscription refused")
	}
	s.mu.Unlock()
	sub := notifier.CreateSubscription()
	ch := make(chan uint64, 16)
	s.mu.Lock()
	s.subs = append(s.subs, ch)
	s.mu.Unlock()
	go func() {
		for {
			select {
			case n := <-ch:
				_ = notifier.Notify(sub.ID, &ethtypes.Header{
					Number:     new(big.Int).SetUint64(n),
					Difficulty: big.NewInt(0),
				})
			case <-sub.Err():
				return
			}
		}
	}()
	return sub, nil
}

func (s *verifF3Eth) subscriptions() int {
	s.mu.Lock()
	defer s.mu.Unlock()
	return len(s.subs)
}

// pushHead announces a new head to every subscriber (stale ones simply drop it).
func (s *verifF3Eth) pushHead(n uint64) {
	s.mu.Lock()
	defer s.mu.Unlock()
	for _, ch := range s.subs {
		select {
		case ch <- n:
		default:
		}
	}
}

func verifF3Log(block uint64) ethtypes.Log {
	return ethtypes.Log{
		Topics:      []ethcommon.Hash{},
		Data:        []byte{},
		BlockNumber: block,
		BlockHash:   ethcommon.BigToHash(new(big.Int).SetUint64(block)),
		TxHash:      ethcommon.BigToHash(new(big.Int).SetUint64(block * 1000)),
	}
}

// Finding F3 (property C13). On the tree before the "fix:" commit, streamLogsToChan returns the NEXT block to fetch
// on its subscribe / subscription-error / close paths, while StreamLogs resumes at the returned value + 1: after a
// failed newHeads subscription the block the stream was about to fetch is skipped for good.
// Blocks 1..4 each emit one log. The first newHeads subscription is refused, the client reconnects, head 4 arrives.
func TestVerifF3_SubscriptionErrorSkipsABlock(t *testing.T) {
	ctx, cancel := context.WithTimeout(context.Background(), 10*time.Second)
	defer cancel()

	eth := &verifF3Eth{
		byBlock: map[uint64][]ethtypes.Log{
			1: {verifF3Log(1)}, 2: {verifF3Log(2)}, 3: {verifF3Log(3)}, 4: {verifF3Log(4)},
		},
		failOnceFrom: 1 << 62, // no eth_getLogs failure
		failSubs:     1,
	}
	srv := rpc.NewServer()
	require.NoError(t, srv.RegisterName("eth", eth))
	httpsrv := httptest.NewServer(srv.WebsocketHandler([]string{"*"}))
	defer srv.Stop()
	defer httpsrv.Close()

	client, err := New(ctx, httpToWebSocketURL(httpsrv.URL), ethcommon.Address{},
		WithLogger(zaptest.NewLogger(t)),
		WithLogBatchSize(2),
		WithFollowDistance(0),
		WithReconnectionInitialInterval(10*time.Millisecond),
		WithReconnectionMaxInterval(time.Second),
	)
	require.NoError(t, err)

	stream := client.StreamLogs(ctx, 1)
	var mu sync.Mutex
	var numbers []uint64
	done := make(chan struct{})
	go func() {
		defer close(done)
		for block := range stream {
			mu.Lock()
			numbers = append(numbers, block.BlockNumber)
			mu.Unlock()
		}
	}()
	deadline := time.Now().Add(5 * time.Second)
	for eth.subscriptions() < 1 {
		if time.Now().After(deadline) {
			t.Fatal("no successful newHeads subscription")
		}
		time.Sleep(2 * time.Millisecond)
	}
	eth.pushHead(4)
	for {
		mu.Lock()
		n := len(numbers)
		last := uint64(0)
		if n > 0 {
			last = numbers[n-1]
		}
		mu.Unlock()
		if last == 4 || time.Now().After(deadline) {
			break
		}
		time.Sleep(2 * time.Millisecond)
	}
	time.Sleep(50 * time.Millisecond)
	require.NoError(t, client.Close())
	<-done
	eth.mu.Lock()
	t.Logf("eth_getLogs queries: %v", eth.queries)
	eth.mu.Unlock()
	t.Logf("delivered block numbers: %v", numbers)
	require.Equal(t, []uint64{1, 2, 3, 4}, numbers, "every block from the requested start must be delivered once, in order")
}
