package duties

// F15 (C16): a "current dependent root changed" notice that arrives after the tick of the LAST slot of an epoch (period)
// resets the duties of the next epoch (period) and marks "fetch next"; at the next tick that epoch is the CURRENT one,
// nothing marks it for fetching, and every duty of it - fetched successfully before - is never dispatched.

import (
	"time"
	"testing"

	eth2apiv1 "github.com/attestantio/go-eth2-client/api/v1"
	"github.com/attestantio/go-eth2-client/spec/phase0"
	"github.com/cornelk/hashmap"
	"github.com/stretchr/testify/require"

	spectypes "github.com/bloxapp/ssv-spec/types"

	"github.com/bloxapp/ssv/operator/duties/dutystore"
)

// Attester: Current reorg noticed at the last slot of epoch 1 (slot 63), duty of epoch 2 at slot 66.
func TestVerifF15_AttesterReorgAtTheLastSlotOfAnEpochLosesTheNextEpoch(t *testing.T) {
	var (
		handler     = NewAttesterHandler(dutystore.NewDuties[eth2apiv1.AttesterDuty]())
		currentSlot = &SlotValue{}
		dutiesMap   = hashmap.New[phase0.Epoch, []*eth2apiv1.AttesterDuty]()
	)
	currentSlot.SetSlot(phase0.Slot(62))
	scheduler, logger, mockTicker, timeout, cancel, schedulerPool, startFn := setupSchedulerAndMocks(t, handler, currentSlot)
	fetchDutiesCall, executeDutiesCall := setupAttesterDutiesMock(scheduler, dutiesMap)
	startFn()

	dutiesMap.Set(phase0.Epoch(2), []*eth2apiv1.AttesterDuty{
		{PubKey: phase0.BLSPubKey{1, 2, 3}, Slot: phase0.Slot(66), ValidatorIndex: phase0.ValidatorIndex(1)},
	})

	// slot 62: next epoch fetched
	mockTicker.Send(currentSlot.GetSlot())
	waitForDutiesFetch(t, logger, fetchDutiesCall, executeDutiesCall, timeout)

	// head event slot 62 (baseline roots)
	scheduler.HandleHeadEvent(logger)(&eth2apiv1.Event{Data: &eth2apiv1.HeadEvent{Slot: 62, CurrentDutyDependentRoot: phase0.Root{0x01}}})
	waitForNoAction(t, logger, fetchDutiesCall, executeDutiesCall, timeout)

	// slot 63 tick, then head event with changed current dependent root
	currentSlot.SetSlot(63)
	mockTicker.Send(currentSlot.GetSlot())
	waitForNoAction(t, logger, fetchDutiesCall, executeDutiesCall, timeout)
	scheduler.HandleHeadEvent(logger)(&eth2apiv1.Event{Data: &eth2apiv1.HeadEvent{Slot: 63, CurrentDutyDependentRoot: phase0.Root{0x02}}})
	waitForNoAction(t, logger, fetchDutiesCall, executeDutiesCall, timeout)

	// slots 64, 65: is epoch 2 ever re-fetched?
	for _, sl := range []phase0.Slot{64, 65} {
		currentSlot.SetSlot(sl)
		mockTicker.Send(sl)
		select {
		case <-fetchDutiesCall:
			t.Logf("slot %d: refetch happened", sl)
		case <-executeDutiesCall:
		case <-time.After(timeout):
			t.Logf("slot %d: no fetch", sl)
		}
	}
	// slot 66: duty expected
	currentSlot.SetSlot(66)
	duties, _ := dutiesMap.Get(phase0.Epoch(2))
	expected := expectedExecutedAttesterDuties(handler, duties)
	setExecuteDutyFunc(scheduler, executeDutiesCall, len(expected))
	mockTicker.Send(phase0.Slot(66))
	f15WaitExecuted(t, fetchDutiesCall, executeDutiesCall, timeout, expected)

	cancel()
	require.NoError(t, schedulerPool.Wait())
}

// Sync committee: Current reorg noticed at the last slot of period 0 (slot 8191).
func TestVerifF15_SyncCommitteeReorgAtTheLastSlotOfAPeriodLosesThePeriod(t *testing.T) {
	var (
		handler     = NewSyncCommitteeHandler(dutystore.NewSyncCommitteeDuties())
		currentSlot = &SlotValue{}
		dutiesMap   = hashmap.New[uint64, []*eth2apiv1.SyncCommitteeDuty]()
	)
	currentSlot.SetSlot(phase0.Slot(256*32 - 2))
	scheduler, logger, ticker, timeout, cancel, schedulerPool, startFn := setupSchedulerAndMocks(t, handler, currentSlot)
	fetchDutiesCall, executeDutiesCall := setupSyncCommitteeDutiesMock(scheduler, dutiesMap)
	startFn()

	dutiesMap.Set(1, []*eth2apiv1.SyncCommitteeDuty{{PubKey: phase0.BLSPubKey{1, 2, 3}, ValidatorIndex: 1}})

	ticker.Send(currentSlot.GetSlot())
	waitForDutiesFetch(t, logger, fetchDutiesCall, executeDutiesCall, timeout)
	scheduler.HandleHeadEvent(logger)(&eth2apiv1.Event{Data: &eth2apiv1.HeadEvent{Slot: currentSlot.GetSlot(), CurrentDutyDependentRoot: phase0.Root{0x01}}})
	waitForNoAction(t, logger, fetchDutiesCall, executeDutiesCall, timeout)

	currentSlot.SetSlot(phase0.Slot(256*32 - 1))
	ticker.Send(currentSlot.GetSlot())
	waitForNoAction(t, logger, fetchDutiesCall, executeDutiesCall, timeout)
	scheduler.HandleHeadEvent(logger)(&eth2apiv1.Event{Data: &eth2apiv1.HeadEvent{Slot: currentSlot.GetSlot(), CurrentDutyDependentRoot: phase0.Root{0x02}}})
	waitForNoAction(t, logger, fetchDutiesCall, executeDutiesCall, timeout)

	// first slot of period 1: duty expected
	currentSlot.SetSlot(phase0.Slot(256 * 32))
	duties, _ := dutiesMap.Get(1)
	expected := expectedExecutedSyncCommitteeDuties(handler, duties, currentSlot.GetSlot())
	setExecuteDutyFunc(scheduler, executeDutiesCall, len(expected))
	ticker.Send(currentSlot.GetSlot())
	f15WaitExecuted(t, fetchDutiesCall, executeDutiesCall, timeout, expected)
	// and the following slot
	currentSlot.SetSlot(phase0.Slot(256*32 + 1))
	expected = expectedExecutedSyncCommitteeDuties(handler, duties, currentSlot.GetSlot())
	setExecuteDutyFunc(scheduler, executeDutiesCall, len(expected))
	ticker.Send(currentSlot.GetSlot())
	f15WaitExecuted(t, fetchDutiesCall, executeDutiesCall, timeout, expected)

	cancel()
	require.NoError(t, schedulerPool.Wait())
}

// f15WaitExecuted: the duties are dispatched at this tick; a (re-)fetch may precede the dispatch.
func f15WaitExecuted(t *testing.T, fetchDutiesCall chan struct{}, executeDutiesCall chan []*spectypes.Duty, timeout time.Duration, expected []*spectypes.Duty) {
	deadline := time.After(4 * timeout)
	for {
		select {
		case <-fetchDutiesCall:
		case duties := <-executeDutiesCall:
			require.Len(t, duties, len(expected))
			return
		case <-deadline:
			require.FailNow(t, "timed out waiting for duty to be executed")
		}
	}
}
