package peers

// Finding F7, second call site (same root cause as F7_short_subnets_crash_test.go): the connection manager's periodic
// GetBestPeers scores every connected peer with scorePeer(peerSubnets, subnetsScores), which indexes the peer's
// advertised subnet vector at every position of this node's score table (one entry per subnet this node knows). A peer
// whose handshake advertised a short subnets string makes it panic.
//
// Verifier: refuted obligation peers.scorePeer.safety.index (the solver's model is in the replay file; the parameter
// types are outside the automatic replay's reach).
// Run: /verif/findings/run_connections_finding.sh /repo /verif/findings/F7b_short_subnets_score_crash_test.go network/peers

import (
	"testing"

	"github.com/bloxapp/ssv/network/records"
)

func TestVerifF7bScoringAPeerWithAShortSubnetVectorDoesNotCrash(t *testing.T) {
	peerSubnets, err := records.Subnets{}.FromString("0f") // what a peer may put into its handshake: 8 entries
	if err != nil || len(peerSubnets) != 8 {
		t.Fatalf("setup: %v %d", err, len(peerSubnets))
	}
	scores := make([]float64, 128) // one score per subnet of this node
	for i := range scores {
		scores[i] = 1
	}
	defer func() {
		if r := recover(); r != nil {
			t.Fatalf("C08 violated: scoring a peer that advertised 8 subnets crashes: %v", r)
		}
	}()
	_ = scorePeer(peerSubnets, scores)
}
