package eventhandler

// F19 (C12): the wallet (eth2-key-manager) stores an account and then its index entry with two separate direct writes, and
// ekm.AddShare decided "absent" on the index alone: a failure or stop between the two writes, a restart and the re-applied
// block left TWO account records holding the same secret share, and a later ValidatorRemoved deleted only the indexed one -
// an orphan record with the removed validator's key share stayed in the database.

import (
	"bytes"
	"context"
	"errors"
	"math/big"
	"strings"
	"testing"

	"github.com/ethereum/go-ethereum/accounts/abi"
	ethcommon "github.com/ethereum/go-ethereum/common"
	ethtypes "github.com/ethereum/go-ethereum/core/types"
	"github.com/stretchr/testify/require"
	"go.uber.org/zap"

	"github.com/bloxapp/ssv/ekm"
	"github.com/bloxapp/ssv/eth/contract"
	"github.com/bloxapp/ssv/eth/eventparser"
	"github.com/bloxapp/ssv/eth/executionclient"
	ibftstorage "github.com/bloxapp/ssv/ibft/storage"
	"github.com/bloxapp/ssv/networkconfig"
	operatordatastore "github.com/bloxapp/ssv/operator/datastore"
	operatorstorage "github.com/bloxapp/ssv/operator/storage"
	registrystorage "github.com/bloxapp/ssv/registry/storage"
	"github.com/bloxapp/ssv/storage/basedb"
	"github.com/bloxapp/ssv/storage/kv"
	"github.com/bloxapp/ssv/utils"
)

// Side finding for C12, UNCHANGED code (fails on the clean tree).
//
// ekm.AddShare is only idempotent with respect to the wallet's *index*
// (wallet.AccountByPublicKey), but storing a share is two separate, direct
// database writes: the account record (SaveAccount, key accounts_<random uuid>)
// and then the wallet with its pubkey->uuid index (SaveWallet). If the second
// write fails, or the node stops between the two, the account record survives
// but the index does not. After restart the block is applied again, AddShare
// does not see the account, creates a new one under a fresh uuid, and the
// database ends up with two records holding the same secret key share. A later
// ValidatorRemoved deletes only the indexed one, so a copy of the removed
// validator's secret key share stays in the database for good.

// sideNode models one node whose database survives restarts: boot() builds
// everything that lives in memory (node storage with its shares map, key
// manager wallet, operator data store, event handler) from the database, the
// same way the node does when it starts.
type sideNode struct {
	t       *testing.T
	logger  *zap.Logger
	db      basedb.Database
	network networkconfig.NetworkConfig
	ops     []*testOperator
}

func newSideNode(t *testing.T, ctx context.Context) *sideNode {
	logger := zap.NewNop()
	db, err := kv.NewInMemory(logger, basedb.Options{Ctx: ctx})
	require.NoError(t, err)

	ops, err := createOperators(4, 0)
	require.NoError(t, err)

	slot := &utils.SlotValue{}
	slot.SetSlot(100)

	n := &sideNode{
		t:       t,
		logger:  logger,
		db:      db,
		network: networkconfig.NetworkConfig{Beacon: utils.SetupMockBeaconNetwork(t, slot)},
		ops:     ops,
	}

	// The committee's operators are already registered (earlier blocks).
	st, err := operatorstorage.NewNodeStorage(logger, db)
	require.NoError(t, err)
	for _, op := range ops {
		pk, err := op.privateKey.Public().Base64()
		require.NoError(t, err)
		_, err = st.SaveOperatorData(nil, &registrystorage.OperatorData{ID: op.id, PublicKey: pk, OwnerAddress: testAddr})
		require.NoError(t, err)
	}
	return n
}

func (n *sideNode) boot() *EventHandler {
	nodeStorage, operatorData := setupOperatorStorage(n.logger, n.db, n.ops[0])
	keyManager, err := ekm.NewETHKeyManagerSigner(n.logger, n.db, n.network, true, "")
	require.NoError(n.t, err)

	filterer, err := contract.NewContractFilterer(ethcommon.Address{}, nil)
	require.NoError(n.t, err)

	eh, err := New(
		nodeStorage,
		eventparser.New(filterer),
		nil,
		n.network,
		operatordatastore.New(operatorData),
		n.ops[0].privateKey,
		keyManager,
		nil,
		ibftstorage.NewStores(),
		WithFullNode(),
		WithLogger(n.logger),
	)
	require.NoError(n.t, err)
	return eh
}

// sideFaultyDB fails (or "stops the node at") one direct database write whose
// prefix contains the given marker. Everything else goes to the real database.
type sideFaultyDB struct {
	basedb.Database
	failPrefixContaining []byte
	armed                bool
	hits                 int
}

func (d *sideFaultyDB) Set(prefix []byte, key []byte, value []byte) error {
	if d.armed && bytes.Contains(prefix, d.failPrefixContaining) {
		d.armed = false
		d.hits++
		return errors.New("injected storage failure")
	}
	return d.Database.Set(prefix, key, value)
}

func sideEventLog(t *testing.T, name string, blockNumber uint64, owner ethcommon.Address, args ...interface{}) ethtypes.Log {
	contractAbi, err := abi.JSON(strings.NewReader(contract.ContractMetaData.ABI))
	require.NoError(t, err)
	ev, ok := contractAbi.Events[name]
	require.True(t, ok)

	data, err := ev.Inputs.NonIndexed().Pack(args...)
	require.NoError(t, err)

	return ethtypes.Log{
		Topics:      []ethcommon.Hash{ev.ID, ethcommon.BytesToHash(owner.Bytes())},
		Data:        data,
		BlockNumber: blockNumber,
		TxHash:      ethcommon.BigToHash(new(big.Int).SetUint64(blockNumber)),
	}
}

func sideStream(blocks ...executionclient.BlockLogs) <-chan executionclient.BlockLogs {
	ch := make(chan executionclient.BlockLogs, len(blocks))
	for _, b := range blocks {
		ch <- b
	}
	close(ch)
	return ch
}

func sideCountAccounts(t *testing.T, eh *EventHandler, sharePK []byte) int {
	accounts, err := eh.keyManager.(ekm.StorageProvider).ListAccounts()
	require.NoError(t, err)
	n := 0
	for _, acc := range accounts {
		if bytes.Equal(acc.ValidatorPublicKey(), sharePK) {
			n++
		}
	}
	return n
}

// sideRun applies block 100 = [ValidatorAdded(own validator)] and then block
// 101 = [ValidatorRemoved(same validator)], restarting the node on the surviving
// database in between. With inject, the wallet write inside AddShare fails once
// while block 100 is applied; the node restarts and resumes from the marker.
// It returns the number of stored accounts holding the own key share after
// block 100 and after block 101.
func sideRun(t *testing.T, inject bool) (afterAdd, afterRemove int) {
	ctx, cancel := context.WithCancel(context.Background())
	defer cancel()

	const blockNumber = uint64(100)
	owner := testAddr
	cluster := contract.ISSVNetworkCoreCluster{ValidatorCount: 1, Active: true, Balance: big.NewInt(1)}
	operatorIDs := []uint64{1, 2, 3, 4}

	node := newSideNode(t, ctx)
	realDB := node.db

	validatorData, err := createNewValidator(node.ops)
	require.NoError(t, err)
	sharesData, err := generateSharesData(validatorData, node.ops, owner, 0)
	require.NoError(t, err)
	validatorPK := validatorData.masterPubKey.Serialize()
	ownSharePK := validatorData.operatorsShares[0].pub.Serialize()

	addBlock := executionclient.BlockLogs{
		BlockNumber: blockNumber,
		Logs:        []ethtypes.Log{sideEventLog(t, ValidatorAdded, blockNumber, owner, operatorIDs, validatorPK, sharesData, cluster)},
	}
	removeBlock := executionclient.BlockLogs{
		BlockNumber: blockNumber + 1,
		Logs:        []ethtypes.Log{sideEventLog(t, ValidatorRemoved, blockNumber+1, owner, operatorIDs, validatorPK, cluster)},
	}

	if inject {
		// First life of the node: the wallet write of AddShare fails.
		faulty := &sideFaultyDB{Database: realDB, failPrefixContaining: []byte("signer_data-wallet-")}
		node.db = faulty
		eh := node.boot()
		faulty.armed = true

		_, err = eh.HandleBlockEventsStream(sideStream(addBlock), false)
		require.Error(t, err, "the injected failure must surface and stop the node")
		require.Equal(t, 1, faulty.hits)
		t.Logf("first attempt failed: %v", err)
		node.db = realDB

		// Restart on the surviving database: nothing of the block is recorded.
		eh = node.boot()
		_, found, err := eh.nodeStorage.GetLastProcessedBlock(nil)
		require.NoError(t, err)
		require.False(t, found)
		require.Nil(t, eh.nodeStorage.Shares().Get(nil, validatorPK))
	}

	// (Re)start and apply block 100 from the marker.
	eh := node.boot()
	_, err = eh.HandleBlockEventsStream(sideStream(addBlock), false)
	require.NoError(t, err)

	eh = node.boot()
	require.NotNil(t, eh.nodeStorage.Shares().Get(nil, validatorPK))
	nonce, err := eh.nodeStorage.GetNextNonce(nil, owner)
	require.NoError(t, err)
	require.EqualValues(t, 1, nonce)
	afterAdd = sideCountAccounts(t, eh, ownSharePK)

	// The validator is removed in the next block.
	_, err = eh.HandleBlockEventsStream(sideStream(removeBlock), false)
	require.NoError(t, err)

	eh = node.boot()
	require.Nil(t, eh.nodeStorage.Shares().Get(nil, validatorPK))
	afterRemove = sideCountAccounts(t, eh, ownSharePK)
	return afterAdd, afterRemove
}

func TestVerifF19_SideC12f_FailureBetweenAccountAndWalletWrite_DuplicatesStoredKeyShare(t *testing.T) {
	wantAdd, wantRemove := sideRun(t, false)
	require.Equal(t, 1, wantAdd, "uninterrupted run: one stored key share")
	require.Equal(t, 0, wantRemove, "uninterrupted run: no stored key share after removal")

	gotAdd, gotRemove := sideRun(t, true)
	t.Logf("stored accounts holding the own key share after block 100: interrupted+resumed %d, uninterrupted %d", gotAdd, wantAdd)
	t.Logf("stored accounts holding the own key share after block 101 (ValidatorRemoved): interrupted+resumed %d, uninterrupted %d", gotRemove, wantRemove)

	require.Equal(t, wantAdd, gotAdd, "the key share is stored twice after the interrupted block was re-applied")
	require.Equal(t, wantRemove, gotRemove, "a copy of the removed validator's secret key share is left in the database")
}
