package eventhandler

// F16 (C11): the per-owner registration nonce is a uint16 (registry/storage.Nonce) and wraps silently: after 65536 add
// attempts of one owner the expected nonce is 0 again and a byte-for-byte replay of the owner's FIRST ValidatorAdded event
// (signed over nonce 0) verifies - "the nonce counts every add attempt exactly once" and "added only with a valid owner
// signature over the expected nonce" fail for that history.

import (
	"context"
	"math/big"
	"testing"

	ethcommon "github.com/ethereum/go-ethereum/common"
	ethtypes "github.com/ethereum/go-ethereum/core/types"
	"github.com/ethereum/go-ethereum/crypto"
	"github.com/stretchr/testify/require"
	"go.uber.org/zap"

	"github.com/bloxapp/ssv/ekm"
	"github.com/bloxapp/ssv/eth/contract"
	"github.com/bloxapp/ssv/eth/eventparser"
	"github.com/bloxapp/ssv/eth/executionclient"
	ibftstorage "github.com/bloxapp/ssv/ibft/storage"
	"github.com/bloxapp/ssv/networkconfig"
	operatordatastore "github.com/bloxapp/ssv/operator/datastore"
	operatorstorage "github.com/bloxapp/ssv/operator/storage"
	registrystorage "github.com/bloxapp/ssv/registry/storage"
	"github.com/bloxapp/ssv/storage/basedb"
	"github.com/bloxapp/ssv/storage/kv"
	"github.com/bloxapp/ssv/utils"
)

type sideFEnv struct {
	db     basedb.Database
	eh     *EventHandler
	ops    []*testOperator
	ownerA ethcommon.Address
	ownerB ethcommon.Address
}

// sideFSetup wires a real event handler (real parser, real storages, real key manager) on an
// in-memory database that stays accessible, so a "restart" (fresh storages on the same database) can be simulated.
func sideFSetup(t *testing.T, ctx context.Context) *sideFEnv {
	logger := zap.NewNop()

	ops, err := createOperators(4, 0)
	require.NoError(t, err)

	db, err := kv.NewInMemory(logger, basedb.Options{Ctx: ctx})
	require.NoError(t, err)

	nodeStorage, operatorData := setupOperatorStorage(logger, db, ops[0])

	currentSlot := &utils.SlotValue{}
	currentSlot.SetSlot(100)
	network := networkconfig.NetworkConfig{Beacon: utils.SetupMockBeaconNetwork(t, currentSlot)}

	keyManager, err := ekm.NewETHKeyManagerSigner(logger, db, network, true, "")
	require.NoError(t, err)

	contractFilterer, err := contract.NewContractFilterer(ethcommon.Address{}, nil)
	require.NoError(t, err)

	eh, err := New(
		nodeStorage,
		eventparser.New(contractFilterer),
		nil, // tasks are never executed in these tests
		network,
		operatordatastore.New(operatorData),
		ops[0].privateKey,
		keyManager,
		nil,
		ibftstorage.NewStores(),
		WithFullNode(),
		WithLogger(logger),
	)
	require.NoError(t, err)

	for _, op := range ops {
		pk, err := op.privateKey.Public().Base64()
		require.NoError(t, err)
		_, err = nodeStorage.SaveOperatorData(nil, &registrystorage.OperatorData{ID: op.id, PublicKey: pk, OwnerAddress: testAddr})
		require.NoError(t, err)
	}

	otherKey, err := crypto.HexToECDSA("42e14d227125f411d6d3285bb4a2e07c2dba2e210bd2f3f4e2a36633bd61bfe6")
	require.NoError(t, err)

	return &sideFEnv{db: db, eh: eh, ops: ops, ownerA: testAddr, ownerB: crypto.PubkeyToAddress(otherKey.PublicKey)}
}

func (e *sideFEnv) process(t *testing.T, blockNumber uint64, logs ...ethtypes.Log) {
	ch := make(chan executionclient.BlockLogs, 1)
	ch <- executionclient.BlockLogs{BlockNumber: blockNumber, Logs: logs}
	close(ch)
	last, err := e.eh.HandleBlockEventsStream(ch, false)
	require.NoError(t, err)
	require.Equal(t, blockNumber, last)
}

// restart returns fresh storages on the same database, i.e. what a restarted node sees.
func (e *sideFEnv) restart(t *testing.T) operatorstorage.Storage {
	s, err := operatorstorage.NewNodeStorage(zap.NewNop(), e.db)
	require.NoError(t, err)
	return s
}

var sideFCluster = contract.ISSVNetworkCoreCluster{ValidatorCount: 1, NetworkFeeIndex: 1, Index: 1, Active: true, Balance: big.NewInt(100_000_000)}

func sideFLog(t *testing.T, name string, owner ethcommon.Address, args ...interface{}) ethtypes.Log {
	contractABI, err := contract.ContractMetaData.GetAbi()
	require.NoError(t, err)
	ev, ok := contractABI.Events[name]
	require.True(t, ok)
	data, err := ev.Inputs.NonIndexed().Pack(args...)
	require.NoError(t, err)
	return ethtypes.Log{Topics: []ethcommon.Hash{ev.ID, ethcommon.BytesToHash(owner.Bytes())}, Data: data}
}

func sideFAdded(t *testing.T, owner ethcommon.Address, ids []uint64, pk, shares []byte) ethtypes.Log {
	return sideFLog(t, ValidatorAdded, owner, ids, pk, shares, sideFCluster)
}

func sideFRemoved(t *testing.T, owner ethcommon.Address, ids []uint64, pk []byte) ethtypes.Log {
	return sideFLog(t, ValidatorRemoved, owner, ids, pk, sideFCluster)
}

func sideFLiquidated(t *testing.T, owner ethcommon.Address, ids []uint64) ethtypes.Log {
	return sideFLog(t, ClusterLiquidated, owner, ids, sideFCluster)
}

// SIDE FINDING 1 (clean tree): the per-owner nonce is a uint16 and silently wraps.
//
// History (all by owner A):
//
//	block 1      : ValidatorAdded X, signed over "A:0"            -> registered (attempt #0)
//	block 2      : ValidatorRemoved X                             -> removed
//	blocks 3..66 : 65535 malformed ValidatorAdded (bad length)    -> attempts #1..#65535
//	block 67     : the log of block 1 replayed byte for byte (signature over nonce 0)
//
// Rules: 65536 attempts were made, the expected nonce is 65536, so the replayed registration carries a signature
// over a stale nonce and must be rejected; X stays unregistered and the nonce becomes 65537.
// Actual: the stored nonce wrapped to 65535 -> next nonce 0, the replay verifies and X is registered again.
func TestVerifF16_NonceWrapsAfter65536AddAttempts(t *testing.T) {
	ctx, cancel := context.WithCancel(context.Background())
	defer cancel()
	env := sideFSetup(t, ctx)
	ids := []uint64{1, 2, 3, 4}

	validatorX, err := createNewValidator(env.ops)
	require.NoError(t, err)
	pkX := validatorX.masterPubKey.Serialize()
	sharesX, err := generateSharesData(validatorX, env.ops, env.ownerA, 0)
	require.NoError(t, err)

	firstRegistration := sideFAdded(t, env.ownerA, ids, pkX, sharesX)
	env.process(t, 1, firstRegistration)
	require.NotNil(t, env.eh.nodeStorage.Shares().Get(nil, pkX))
	env.process(t, 2, sideFRemoved(t, env.ownerA, ids, pkX))
	require.Nil(t, env.eh.nodeStorage.Shares().Get(nil, pkX))

	malformed := sideFAdded(t, env.ownerA, ids, pkX, sharesX[:len(sharesX)-1])
	const total = 65535
	block := uint64(3)
	for done := 0; done < total; block++ {
		n := 1024
		if total-done < n {
			n = total - done
		}
		logs := make([]ethtypes.Log, n)
		for i := range logs {
			logs[i] = malformed
		}
		env.process(t, block, logs...)
		done += n
	}

	// 65536 add attempts were made by A so far.
	rd, found, err := env.eh.nodeStorage.GetRecipientData(nil, env.ownerA)
	require.NoError(t, err)
	require.True(t, found)
	t.Logf("stored nonce after 65536 attempts: %d", *rd.Nonce)
	next, err := env.eh.nodeStorage.GetNextNonce(nil, env.ownerA)
	require.NoError(t, err)
	t.Logf("next expected nonce after 65536 attempts: %d", next)

	// Replay of the very first registration (signature over nonce 0).
	env.process(t, block, firstRegistration)
	require.Nil(t, env.eh.nodeStorage.Shares().Get(nil, pkX),
		"replayed registration (signed over nonce 0) was accepted as attempt #65536: nonce wrapped around")
}

// SIDE FINDING 2 (clean tree): in-memory shares and database diverge when validator metadata is updated
// (Shares().UpdateValidatorMetadata, called by the validator controller's metadata loop from another goroutine,
// writes directly to the database) while a block is being processed, between the handler that saved the share
// in the block's transaction and the commit of that transaction.
//
// Schedule: block N = [ClusterLiquidated(own cluster), ...more events...]
//
//	event handler : handleClusterLiquidated -> share.Liquidated=true, txn.Set(share)         (pending)
//	metadata loop : UpdateValidatorMetadata(X, md) -> direct db.Set(share incl. md)          (committed)
//	event handler : ... txn.Commit() -> the older encoding (no md) overwrites the newer one
//
// No badger conflict is raised since the transaction never read the share key (reads are served from memory).
// Afterwards the in-memory share has the metadata, the database does not; a restart yields a different share.
