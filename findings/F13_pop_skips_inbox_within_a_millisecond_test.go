package queue

import (
	"context"
	"testing"

	specqbft "github.com/bloxapp/ssv-spec/qbft"
	spectypes "github.com/bloxapp/ssv-spec/types"

	ssvmessage "github.com/bloxapp/ssv/protocol/v2/message"
	ssvtypes "github.com/bloxapp/ssv/protocol/v2/types"
)

// F13 (C14): the blocking Pop reads the inbox only if more than inboxReadFrequency (1 ms) has passed since the last
// read. A message pushed successfully within that window stays in the inbox channel (Len counts it), and the
// immediate pop chooses among the list only: a duty start pushed BEFORE the pop loses to a commit.
func TestVerifF13_PopReturnsNonMaximalMessageWithinReadWindow(t *testing.T) {
	cons := func(typ specqbft.MessageType) *DecodedSSVMessage {
		return &DecodedSSVMessage{
			SSVMessage: &spectypes.SSVMessage{MsgType: spectypes.SSVConsensusMsgType},
			Body: &specqbft.SignedMessage{
				Message: specqbft.Message{MsgType: typ, Height: 100, Round: 1},
				Signers: []spectypes.OperatorID{1},
			},
		}
	}
	state := &State{HasRunningInstance: true, Height: 100, Round: 1, Quorum: 3}
	bad := 0
	const runs = 50
	for it := 0; it < runs; it++ {
		q := New(32)
		prepare, commit := cons(specqbft.PrepareMsgType), cons(specqbft.CommitMsgType)
		q.Push(prepare)
		q.Push(commit)
		if m := q.Pop(context.Background(), NewMessagePrioritizer(state), FilterAny); m != prepare {
			t.Fatalf("expected the prepare first")
		}
		duty := &DecodedSSVMessage{
			SSVMessage: &spectypes.SSVMessage{MsgType: ssvmessage.SSVEventMsgType},
			Body:       &ssvtypes.EventMsg{Type: ssvtypes.ExecuteDuty},
		}
		if !q.TryPush(duty) {
			t.Fatal("push failed")
		}
		if q.Len() != 2 {
			t.Fatalf("Len()=%d, want 2 (commit in the list, duty start in the inbox)", q.Len())
		}
		if m := q.Pop(context.Background(), NewMessagePrioritizer(state), FilterAny); m != duty {
			bad++
		}
	}
	if bad > 0 {
		t.Fatalf("in %d of %d runs Pop returned the commit although a duty start (highest priority) had been pushed before the pop", bad, runs)
	}
}
