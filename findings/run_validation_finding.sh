#!/bin/bash
# usage: run_validation_finding.sh [repo] [test file]  -- compiles a finding test into package message/validation through
# a go overlay: the package's own tests are blanked and the two quic-go files that do not compile offline are replaced
# for the test build only (engine/replay_ov).
set -eu
HERE=$(cd "$(dirname "$0")" && pwd)
REPO=$(cd "${1:-/repo}" && pwd)
TEST=${2:-$HERE/F4_partial_signature_no_slot_window_test.go}
export GOFLAGS=-mod=mod GOPROXY=off GOSUMDB=off GOTOOLCHAIN=local
MC=$(go env GOMODCACHE)
TMP=$(mktemp -d "${TMPDIR:-/var/tmp}/valfinding.XXXXXX")
trap 'rm -rf "$TMP"' EXIT
echo 'package validation' > "$TMP/blank_test.go"
{
  echo '{ "Replace": {'
  for f in "$REPO"/message/validation/*_test.go; do echo "  \"$f\": \"$TMP/blank_test.go\","; done
  echo "  \"$MC/github.com/quic-go/quic-go@v0.33.0/internal/qtls/go121.go\": \"$HERE/../engine/replay_ov/qtls_go121.go\","
  echo "  \"$MC/github.com/quic-go/qtls-go1-20@v0.2.3/unsafe.go\": \"$HERE/../engine/replay_ov/qtls20_unsafe.go\","
  echo "  \"$REPO/message/validation/zz_verif_finding_test.go\": \"$TEST\""
  echo '} }'
} > "$TMP/ov.json"
cd "$REPO"
go test -vet=off -count=1 -timeout 600s -overlay "$TMP/ov.json" -run 'TestVerifF' -v ./message/validation/
