package records

// Finding F8 (property C08: "... the decoders of signed envelopes, node records and handshake payloads" never panic).
//
// DomainTypeEntry.DecodeRLP converts the decoded byte slice with DomainTypeEntry(buf) - a slice-to-array conversion to
// [4]byte, which panics when the slice is shorter than 4 bytes. The entry comes from a peer's ENR (node record), which
// the peer builds and signs itself: a record whose "domaintype" entry is 1 byte long crashes the node inside
// GetDomainTypeEntry (called for every discovered node in network/discovery/dv5_service.go).
//
// Found by `gowp sweep network/records` (refuted obligation (*records.DomainTypeEntry).DecodeRLP.safety.slice-to-array).
// Run: /verif/findings/run_connections_finding.sh /repo /verif/findings/F8_short_domain_type_entry_test.go network/records

import (
	"testing"

	"github.com/ethereum/go-ethereum/p2p/enr"
)

func TestVerifF8ShortDomainTypeEntryDoesNotCrash(t *testing.T) {
	var record enr.Record
	// what a peer can put into its own node record
	record.Set(enr.WithEntry(DomainTypeEntry{}.ENRKey(), []byte{0x01}))

	defer func() {
		if r := recover(); r != nil {
			t.Fatalf("C08 violated: a node record with a 1-byte %q entry crashes GetDomainTypeEntry: %v", DomainTypeEntry{}.ENRKey(), r)
		}
	}()
	if _, err := GetDomainTypeEntry(&record); err == nil {
		t.Errorf("a 1-byte domain type entry was accepted")
	}
}
