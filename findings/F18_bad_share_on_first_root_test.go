package runner

// Side findings for C05 on the UNCHANGED tree. Place this file at protocol/v2/ssv/runner/ (package runner):
//   go test -vet=off -count=1 -v -run TestSide ./protocol/v2/ssv/runner/
// Every TestSide* FAILS on the clean tree.

import (
	"encoding/hex"
	"errors"
	"testing"

	"github.com/attestantio/go-eth2-client/spec/altair"
	"github.com/attestantio/go-eth2-client/spec/phase0"
	specqbft "github.com/bloxapp/ssv-spec/qbft"
	specssv "github.com/bloxapp/ssv-spec/ssv"
	spectypes "github.com/bloxapp/ssv-spec/types"
	"github.com/bloxapp/ssv-spec/types/testingutils"
	"github.com/herumi/bls-eth-go-binary/bls"
	"github.com/stretchr/testify/require"
	"go.uber.org/zap"

	"github.com/bloxapp/ssv/protocol/v2/qbft/instance"
	qbfttesting "github.com/bloxapp/ssv/protocol/v2/qbft/testing"
)

// ---------------------------------------------------------------------------------------------------------------------
// S1: sync committee contribution (multi-root duty): ONE faulty member (<= f) sends a wrong partial signature for the
// root that is listed FIRST; the other roots of the same quorum, which hold 2f+1 correct partial signatures, are never
// submitted and the duty is marked Finished after a single one of the three decided contributions was submitted.
// ---------------------------------------------------------------------------------------------------------------------

type sideFContribBeacon struct {
	*testingutils.TestingBeaconNode
	submitted []*altair.SignedContributionAndProof
}

func (b *sideFContribBeacon) SubmitSignedContributionAndProof(c *altair.SignedContributionAndProof) error {
	b.submitted = append(b.submitted, c)
	return b.TestingBeaconNode.SubmitSignedContributionAndProof(c)
}

func sideFDecidedContribRunner(t *testing.T, ks *testingutils.TestKeySet) (*SyncCommitteeAggregatorRunner, *sideFContribBeacon) {
	logger := zap.NewNop()
	role := spectypes.BNRoleSyncCommitteeContribution
	share := testingutils.TestingShare(ks)
	identifier := spectypes.NewMsgID(testingutils.TestingSSVDomainType, testingutils.TestingValidatorPubKey[:], role)
	net := testingutils.NewTestingNetwork()
	km := testingutils.NewTestingKeyManager()
	valCheck := specssv.SyncCommitteeContributionValueCheckF(km, spectypes.BeaconTestNetwork,
		testingutils.TestingValidatorPubKey[:], testingutils.TestingValidatorIndex)

	config := qbfttesting.TestingConfig(logger, ks, identifier.GetRoleType())
	config.ValueCheckF = valCheck
	config.Network = net
	config.Signer = km
	contr := qbfttesting.NewTestingQBFTController(identifier[:], share, config, false)

	bn := &sideFContribBeacon{TestingBeaconNode: testingutils.NewTestingBeaconNode()}
	r := NewSyncCommitteeAggregatorRunner(spectypes.BeaconTestNetwork, share, contr, bn, net, km, valCheck, 0).(*SyncCommitteeAggregatorRunner)

	duty := testingutils.TestingSyncCommitteeContributionDuty
	require.NoError(t, r.StartNewDuty(logger, &duty))

	inst := instance.NewInstance(config, share, identifier[:], specqbft.Height(duty.Slot))
	inst.State.Decided = true
	inst.State.DecidedValue = testingutils.TestSyncCommitteeContributionConsensusDataByts
	r.GetState().RunningInstance = inst
	decided := &spectypes.ConsensusData{}
	require.NoError(t, decided.Decode(testingutils.TestSyncCommitteeContributionConsensusDataByts))
	r.GetState().DecidedValue = decided

	return r, bn
}

func sideFResign(t *testing.T, msg *spectypes.SignedPartialSignatureMessage, sk *bls.SecretKey) {
	sig, err := testingutils.NewTestingKeyManager().SignRoot(msg.Message, spectypes.PartialSignatureType, sk.GetPublicKey().Serialize())
	require.NoError(t, err)
	msg.Signature = sig
}

func TestVerifF18_BadShareOnTheFirstRootLosesTheOtherContributions(t *testing.T) {
	ks := testingutils.Testing4SharesSet()
	r, bn := sideFDecidedContribRunner(t, ks)
	logger := zap.NewNop()

	// operator 2 (faulty): correct partial signatures for roots #1 and #2, a well-formed but wrong one for root #0
	bad := testingutils.PostConsensusSyncCommitteeContributionMsg(ks.Shares[2], 2, ks)
	first := bad.Message.Messages[0]
	firstRoot := make([]byte, 32)
	copy(firstRoot, first.SigningRoot[:])
	first.PartialSignature = ks.Shares[4].SignByte(firstRoot).Serialize()
	sideFResign(t, bad, ks.Shares[2])

	require.NoError(t, r.ProcessPostConsensus(logger, testingutils.PostConsensusSyncCommitteeContributionMsg(ks.Shares[1], 1, ks)))
	require.NoError(t, r.ProcessPostConsensus(logger, bad))
	// quorum edge for all three roots; reconstruction of root #0 fails, the bad share is evicted, the call returns.
	// roots #1 and #2 now hold three CORRECT partial signatures (1, 2, 3) each and nothing is submitted for them.
	require.Error(t, r.ProcessPostConsensus(logger, testingutils.PostConsensusSyncCommitteeContributionMsg(ks.Shares[3], 3, ks)))
	t.Logf("after operators 1,2,3: %d submissions, Finished=%v", len(bn.submitted), r.GetState().Finished)

	// operator 4 (correct): root #0 reaches 2f+1 correct shares (1,3,4) -> submitted, Finished=true; for roots #1, #2
	// this is the 4th signature (no quorum edge) -> they are never submitted.
	require.NoError(t, r.ProcessPostConsensus(logger, testingutils.PostConsensusSyncCommitteeContributionMsg(ks.Shares[4], 4, ks)))
	t.Logf("after operator 4: %d submissions, Finished=%v", len(bn.submitted), r.GetState().Finished)

	domain, err := bn.DomainData(testingutils.TestingDutyEpoch, spectypes.DomainContributionAndProof)
	require.NoError(t, err)
	seen := map[string]int{}
	for _, s := range bn.submitted {
		root, err := spectypes.ComputeETHSigningRoot(s.Message, domain)
		require.NoError(t, err)
		seen[hex.EncodeToString(root[:])]++
		sig := &bls.Sign{}
		sigByts := make([]byte, len(s.Signature))
		copy(sigByts, s.Signature[:])
		require.NoError(t, sig.Deserialize(sigByts))
		require.True(t, sig.VerifyByte(ks.ValidatorPK, root[:]))
	}
	require.Lenf(t, seen, len(testingutils.TestingContributionsData),
		"all 4 operators' messages arrived (>= 2f+1 correct partial signatures for every root, one faulty member) but only %d of %d decided contributions were submitted; Finished=%v",
		len(seen), len(testingutils.TestingContributionsData), r.GetState().Finished)
}

// ---------------------------------------------------------------------------------------------------------------------
// S2: voluntary exit: the object that is submitted (r.voluntaryExit) is stored at the very END of executeDuty, after
// the broadcast. If executeDuty of a later exit duty fails after baseSetupForNewDuty (e.g. network.Broadcast error),
// the new duty is running (state replaced) with the PREVIOUS duty's object still in r.voluntaryExit. The peers'
// partial signatures over the new object reach quorum, and the runner submits the OLD VoluntaryExit with a signature
// over the NEW one: the submitted signature does not verify over the submitted object.
// ---------------------------------------------------------------------------------------------------------------------

type sideFExitBeacon struct {
	*testingutils.TestingBeaconNode
	submitted []*phase0.SignedVoluntaryExit
}

func (b *sideFExitBeacon) SubmitVoluntaryExit(e *phase0.SignedVoluntaryExit) error {
	b.submitted = append(b.submitted, e)
	return b.TestingBeaconNode.SubmitVoluntaryExit(e)
}

type sideFFlakyNet struct {
	*testingutils.TestingNetwork
	fail bool
}

func (n *sideFFlakyNet) Broadcast(m *spectypes.SSVMessage) error {
	if n.fail {
		return errors.New("broadcast failed")
	}
	return n.TestingNetwork.Broadcast(m)
}

func TestVerifObs_VoluntaryExitSubmitsStaleObjectAfterFailedStart(t *testing.T) {
	ks := testingutils.Testing4SharesSet()
	logger := zap.NewNop()
	share := testingutils.TestingShare(ks)
	bn := &sideFExitBeacon{TestingBeaconNode: testingutils.NewTestingBeaconNode()}
	net := &sideFFlakyNet{TestingNetwork: testingutils.NewTestingNetwork()}
	r := NewVoluntaryExitRunner(spectypes.BeaconTestNetwork, share, bn, net, testingutils.NewTestingKeyManager()).(*VoluntaryExitRunner)

	// duty 1 (slot 12, epoch 0) runs normally
	d1 := testingutils.TestingVoluntaryExitDuty
	require.NoError(t, r.StartNewDuty(logger, &d1))
	for _, id := range []spectypes.OperatorID{1, 2, 3} {
		require.NoError(t, r.ProcessPreConsensus(logger, testingutils.PreConsensusVoluntaryExitMsg(ks.Shares[id], id)))
	}
	require.Len(t, bn.submitted, 1)

	// duty 2 (slot 50, epoch 1): our broadcast fails -> StartNewDuty returns an error, but the new duty is running
	d2 := testingutils.TestingVoluntaryExitDutyNextEpoch
	net.fail = true
	require.Error(t, r.StartNewDuty(logger, &d2))
	net.fail = false
	require.True(t, r.HasRunningDuty())
	require.Equal(t, d2.Slot, r.GetState().StartingDuty.Slot)

	// the other three operators' correct partial signatures for duty 2 arrive
	for _, id := range []spectypes.OperatorID{2, 3, 4} {
		require.NoError(t, r.ProcessPreConsensus(logger, testingutils.PreConsensusVoluntaryExitNextEpochMsg(ks.Shares[id], id)))
	}
	require.Len(t, bn.submitted, 2)

	domain, err := bn.DomainData(0, spectypes.DomainVoluntaryExit)
	require.NoError(t, err)
	for i, s := range bn.submitted {
		root, err := spectypes.ComputeETHSigningRoot(s.Message, domain)
		require.NoError(t, err)
		sig := &bls.Sign{}
		sigByts := make([]byte, len(s.Signature))
		copy(sigByts, s.Signature[:])
		require.NoError(t, sig.Deserialize(sigByts))
		require.Truef(t, sig.VerifyByte(ks.ValidatorPK, root[:]),
			"submission #%d: SignedVoluntaryExit{epoch %d} carries a signature that does not verify under the validator key over the submitted object (duty slot %d)",
			i, s.Message.Epoch, r.GetState().StartingDuty.Slot)
	}
}

// ---------------------------------------------------------------------------------------------------------------------
// S3: the running instance was evicted from the controller's instance container (capacity 2) by decided messages of
// two later heights before it decided. The decided message of the running duty is then accepted by
// baseConsensusMsgProcessing (DecidedValue recorded, own post-consensus share broadcast), but RunningInstance itself
// never learns it is decided, so ValidatePostConsensusMsg rejects EVERY post-consensus message with "consensus
// instance not decided": nothing is submitted although all four correct partial signatures arrive.
// ---------------------------------------------------------------------------------------------------------------------

type sideFAttBeacon struct {
	*testingutils.TestingBeaconNode
	submitted []*phase0.Attestation
}

func (b *sideFAttBeacon) SubmitAttestation(a *phase0.Attestation) error {
	b.submitted = append(b.submitted, a)
	return b.TestingBeaconNode.SubmitAttestation(a)
}

func sideFDecidedMsg(ks *testingutils.TestKeySet, identifier []byte, height specqbft.Height, fullData []byte) *specqbft.SignedMessage {
	root, _ := specqbft.HashDataRoot(fullData)
	msg := testingutils.MultiSignQBFTMsg(
		[]*bls.SecretKey{ks.Shares[2], ks.Shares[3], ks.Shares[4]},
		[]spectypes.OperatorID{2, 3, 4},
		&specqbft.Message{
			MsgType:    specqbft.CommitMsgType,
			Height:     height,
			Round:      specqbft.FirstRound,
			Identifier: identifier,
			Root:       root,
		})
	msg.FullData = fullData
	return msg
}

func TestVerifObs_EvictedRunningInstanceBlocksPostConsensus(t *testing.T) {
	ks := testingutils.Testing4SharesSet()
	logger := zap.NewNop()
	role := spectypes.BNRoleAttester
	share := testingutils.TestingShare(ks)
	identifier := spectypes.NewMsgID(testingutils.TestingSSVDomainType, testingutils.TestingValidatorPubKey[:], role)
	net := testingutils.NewTestingNetwork()
	km := testingutils.NewTestingKeyManager()
	valCheck := specssv.AttesterValueCheckF(km, spectypes.BeaconTestNetwork,
		testingutils.TestingValidatorPubKey[:], testingutils.TestingValidatorIndex, nil)
	config := qbfttesting.TestingConfig(logger, ks, identifier.GetRoleType())
	config.ValueCheckF = valCheck
	config.Network = net
	config.Signer = km
	contr := qbfttesting.NewTestingQBFTController(identifier[:], share, config, false)
	// production capacity of the instance container (the testing controller uses 1024)
	contr.StoredInstances = make([]*instance.Instance, 0, 2)

	bn := &sideFAttBeacon{TestingBeaconNode: testingutils.NewTestingBeaconNode()}
	r := NewAttesterRunnner(spectypes.BeaconTestNetwork, share, contr, bn, net, km, valCheck, 0).(*AttesterRunner)

	duty := testingutils.TestingAttesterDuty
	require.NoError(t, r.StartNewDuty(logger, &duty))
	h := specqbft.Height(duty.Slot)

	// decided messages of two later heights arrive first (this operator lags behind the committee)
	later := func(slot phase0.Slot) []byte {
		cd := &spectypes.ConsensusData{}
		require.NoError(t, cd.Decode(testingutils.TestAttesterConsensusDataByts))
		cd.Duty.Slot = slot
		b, err := cd.Encode()
		require.NoError(t, err)
		return b
	}
	_ = r.ProcessConsensus(logger, sideFDecidedMsg(ks, identifier[:], h+1, later(duty.Slot+1)))
	_ = r.ProcessConsensus(logger, sideFDecidedMsg(ks, identifier[:], h+2, later(duty.Slot+2)))
	require.Nil(t, contr.StoredInstances.FindInstance(h), "running instance should have been evicted")
	require.True(t, r.HasRunningDuty())

	// the decided message of the running duty arrives: accepted, own post-consensus share is broadcast
	before := len(net.BroadcastedMsgs)
	require.NoError(t, r.ProcessConsensus(logger, sideFDecidedMsg(ks, identifier[:], h, testingutils.TestAttesterConsensusDataByts)))
	require.NotNil(t, r.GetState().DecidedValue)
	require.Greater(t, len(net.BroadcastedMsgs), before, "own post-consensus partial signature was broadcast")

	// all four correct post-consensus partial signatures arrive
	for _, id := range []spectypes.OperatorID{1, 2, 3, 4} {
		if err := r.ProcessPostConsensus(logger, testingutils.PostConsensusAttestationMsg(ks.Shares[id], id, h)); err != nil {
			t.Logf("ProcessPostConsensus(signer %d): %v", id, err)
		}
	}
	require.Lenf(t, bn.submitted, 1, "duty decided (own share broadcast) and 4 correct partial signatures arrived, but %d attestations were submitted", len(bn.submitted))
}
