package runner

import (
	"testing"

	spec "github.com/attestantio/go-eth2-client/spec/phase0"
	specqbft "github.com/bloxapp/ssv-spec/qbft"
	specssv "github.com/bloxapp/ssv-spec/ssv"
	spectypes "github.com/bloxapp/ssv-spec/types"
	"github.com/bloxapp/ssv-spec/types/testingutils"
	ssz "github.com/ferranbt/fastssz"
	"github.com/herumi/bls-eth-go-binary/bls"
	"go.uber.org/zap"

	"github.com/bloxapp/ssv/protocol/v2/qbft/controller"
	qbfttesting "github.com/bloxapp/ssv/protocol/v2/qbft/testing"
)

// f9Signer wraps the real testing key manager and records every validator-key signature.
type f9Signer struct {
	spectypes.KeyManager
	calls []seedDSignCall
}

type seedDSignCall struct {
	root       [32]byte
	domainType spec.DomainType
}

func (s *f9Signer) SignBeaconObject(obj ssz.HashRoot, domain spec.Domain, pk []byte, domainType spec.DomainType) (spectypes.Signature, [32]byte, error) {
	sig, root, err := s.KeyManager.SignBeaconObject(obj, domain, pk, domainType)
	if err == nil {
		s.calls = append(s.calls, seedDSignCall{root: root, domainType: domainType})
	}
	return sig, root, err
}

// TestVerifF9ReplayedDecidedAfterEvictionBeforeDecision drives a real attester runner with a real QBFT controller
// (production sized instance container):
//
//  1. the attester duty for slot 12 starts, consensus instance 12 is running
//  2. a decided (quorum commit) message for height 12 arrives -> the operator signs the decided attestation once
//  3. decided messages of the next two heights (13, 14) arrive, e.g. because the rest of the committee moved on
//     while this operator still waits for the post-consensus quorum. They are rejected by the runner
//     ("decided wrong instance") but the controller keeps them and drops instance 12 from its bounded container.
//  4. the decided message for height 12 is delivered again (decided messages are re-broadcast by every peer).
//
// The operator must NOT sign the already signed decided attestation a second time.
func TestVerifF9ReplayedDecidedAfterEvictionBeforeDecision(t *testing.T) {
	logger := zap.NewNop()
	ks := testingutils.Testing4SharesSet()
	share := testingutils.TestingShare(ks)
	role := spectypes.BNRoleAttester
	identifier := spectypes.NewMsgID(testingutils.TestingSSVDomainType, testingutils.TestingValidatorPubKey[:], role)

	km := testingutils.NewTestingKeyManager()
	signer := &f9Signer{KeyManager: km}
	net := testingutils.NewTestingNetwork()
	valCheck := specssv.AttesterValueCheckF(km, spectypes.BeaconTestNetwork, testingutils.TestingValidatorPubKey[:], testingutils.TestingValidatorIndex, nil)

	config := qbfttesting.TestingConfig(logger, ks, role)
	config.ValueCheckF = valCheck
	config.Network = net
	config.Signer = km

	// production controller: bounded instance container (InstanceContainerDefaultCapacity)
	contr := controller.NewController(identifier[:], share, config, false)

	r := NewAttesterRunnner(spectypes.BeaconTestNetwork, share, contr, testingutils.NewTestingBeaconNode(), net, signer, valCheck, 0)

	duty := testingutils.TestingAttesterDuty
	if err := r.StartNewDuty(logger, &duty); err != nil {
		t.Fatalf("start duty: %v", err)
	}
	height := specqbft.Height(duty.Slot)
	if got := r.GetBaseRunner().State.RunningInstance.GetHeight(); got != height {
		t.Fatalf("running instance height %d, want %d", got, height)
	}

	sks := []*bls.SecretKey{ks.Shares[1], ks.Shares[2], ks.Shares[3]}
	ids := []spectypes.OperatorID{1, 2, 3}
	decidedFor := func(h specqbft.Height, fullData []byte) *specqbft.SignedMessage {
		return testingutils.TestingCommitMultiSignerMessageWithHeightIdentifierAndFullData(sks, ids, h, identifier[:], fullData)
	}

	postConsensusSigs := func() int {
		n := 0
		for _, c := range signer.calls {
			if c.domainType == spectypes.DomainAttester {
				n++
			}
		}
		return n
	}
	partialSigBroadcasts := func() int {
		n := 0
		for _, m := range net.BroadcastedMsgs {
			if m.MsgType == spectypes.SSVPartialSignatureMsgType {
				n++
			}
		}
		return n
	}

	// (2) decided messages of the next two heights arrive BEFORE this operator saw the decision of its running
	// instance: the runner rejects them, but the controller's two-slot container now holds 13 and 14 only
	for _, h := range []specqbft.Height{height + 1, height + 2} {
		if err := r.ProcessConsensus(logger, decidedFor(h, testingutils.TestAttesterConsensusDataByts)); err == nil {
			t.Fatalf("decided for height %d (not the running instance) was not rejected", h)
		}
	}
	if got := postConsensusSigs(); got != 0 {
		t.Fatalf("future decided messages caused a signature: %d signatures", got)
	}

	// (3) the decided message of the running instance arrives: sign once
	if err := r.ProcessConsensus(logger, decidedFor(height, testingutils.TestAttesterConsensusDataByts)); err != nil {
		t.Fatalf("decided for running instance: %v", err)
	}
	if got := postConsensusSigs(); got != 1 {
		t.Fatalf("expected exactly 1 attestation signature after the decision, got %d", got)
	}

	// (4) ... and is delivered again (replay / second peer)
	_ = r.ProcessConsensus(logger, decidedFor(height, testingutils.TestAttesterConsensusDataByts))

	if got := postConsensusSigs(); got != 1 {
		t.Errorf("decided attestation for slot %d was signed %d times with the validator key share, want 1", duty.Slot, got)
	}
	if got := partialSigBroadcasts(); got != 1 {
		t.Errorf("post-consensus partial signature broadcast %d times for one decided object, want 1", got)
	}
	if len(signer.calls) >= 2 && signer.calls[0].root == signer.calls[len(signer.calls)-1].root {
		t.Logf("same signing root %x signed twice", signer.calls[0].root)
	}
}
