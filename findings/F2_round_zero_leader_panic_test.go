package instance

// Demonstration of finding F2 (property C08). message/validation.validConsensusSigners computes the round leader with
// specqbft.RoundRobinProposer(&State{Height: m.Message.Height, Share: &share.Share}, m.Message.Round) for every single-signer
// proposal BEFORE any check of the round (the maxRound check comes later in validateConsensusMessage), and there is no
// recover() in the validation path. For Round == 0 (or a round >= 2^63) the committee index is negative and the call
// panics: one crafted proposal message crashes the pubsub validator.
// The package message/validation does not compile offline (libp2p -> quic-go), so this replays the exact call on the same
// dependency function in a package that builds. Run with
//   go test -overlay <overlay mapping this file into protocol/v2/qbft/instance> -vet=off -run TestVerifF2 ./protocol/v2/qbft/instance

import (
	"testing"

	specqbft "github.com/bloxapp/ssv-spec/qbft"
	spectypes "github.com/bloxapp/ssv-spec/types"
)

func TestVerifF2(t *testing.T) {
	share := &spectypes.Share{Committee: []*spectypes.Operator{{OperatorID: 1}, {OperatorID: 2}, {OperatorID: 3}, {OperatorID: 4}}}
	for _, tc := range []struct {
		height specqbft.Height
		round  specqbft.Round
	}{{0, 0}, {4, 0}, {8, 0}, {1, 1 << 63}} {
		func() {
			defer func() {
				if r := recover(); r != nil {
					t.Errorf("height %d round %d: leader computation panics: %v", tc.height, tc.round, r)
				}
			}()
			// exactly what validConsensusSigners does with the fields of the received message
			qbftState := &specqbft.State{Height: tc.height, Share: share}
			_ = specqbft.RoundRobinProposer(qbftState, tc.round)
		}()
	}
}
