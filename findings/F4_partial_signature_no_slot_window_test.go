package validation

// Finding F4 (property C09): "A pubsub message is accepted only if it ... fits the slot and round windows of its role."
//
// validateConsensusMessage applies validateSlotTime (ErrEarlyMessage / ErrLateMessage); validatePartialSignatureMessage
// has no such rule (it is not even given the reception time): a partial-signature message of a committee member for
// a slot thousands of slots in the future - or in the past - is accepted, and it advances that signer's recorded slot,
// so that the signer's genuine messages for the current slot are afterwards refused with ErrSlotAlreadyAdvanced.
//
// Run: /verif/findings/run_validation_finding.sh   (overlay build; the quic-go files that do not compile offline are
// replaced for the test build only, and the package's own tests are blanked).
// Obligations of the verifier that fail on this code:
//   (*validation.messageValidator).validatePartialSignatureMessage.count[vst].matches_a_call_site
//   (*validation.messageValidator).validatePartialSignatureMessage.slot_window_checked@ret*

import (
	"testing"

	eth2apiv1 "github.com/attestantio/go-eth2-client/api/v1"
	specqbft "github.com/bloxapp/ssv-spec/qbft"
	spectypes "github.com/bloxapp/ssv-spec/types"
	spectestingutils "github.com/bloxapp/ssv-spec/types/testingutils"
	"go.uber.org/zap"

	"github.com/bloxapp/ssv/networkconfig"
	"github.com/bloxapp/ssv/operator/storage"
	beaconprotocol "github.com/bloxapp/ssv/protocol/v2/blockchain/beacon"
	ssvtypes "github.com/bloxapp/ssv/protocol/v2/types"
	"github.com/bloxapp/ssv/storage/basedb"
	"github.com/bloxapp/ssv/storage/kv"
)

func TestVerifF4PartialSignatureOutsideSlotWindow(t *testing.T) {
	db, err := kv.NewInMemory(zap.NewNop(), basedb.Options{})
	if err != nil {
		t.Fatal(err)
	}
	defer db.Close()
	ns, err := storage.NewNodeStorage(zap.NewNop(), db)
	if err != nil {
		t.Fatal(err)
	}
	ks := spectestingutils.Testing4SharesSet()
	share := &ssvtypes.SSVShare{
		Share: *spectestingutils.TestingShare(ks),
		Metadata: ssvtypes.Metadata{
			BeaconMetadata: &beaconprotocol.ValidatorMetadata{Status: eth2apiv1.ValidatorStateActiveOngoing, Index: 123},
		},
	}
	if err := ns.Shares().Save(nil, share); err != nil {
		t.Fatal(err)
	}
	netCfg := networkconfig.TestNetwork
	role := spectypes.BNRoleAttester
	validator := NewMessageValidator(netCfg, WithNodeStorage(ns)).(*messageValidator)

	now := netCfg.Beacon.FirstSlotAtEpoch(1)
	receivedAt := netCfg.Beacon.GetSlotStartTime(now).Add(validator.waitAfterSlotStart(role))

	// control: the consensus path does refuse a message for a far-future slot
	future := now + 10000
	prop := spectestingutils.TestingProposalMessageWithHeight(ks.Shares[1], 1, specqbft.Height(future))
	encProp, _ := prop.Encode()
	_, _, err = validator.validateSSVMessage(&spectypes.SSVMessage{
		MsgType: spectypes.SSVConsensusMsgType,
		MsgID:   spectypes.NewMsgID(netCfg.Domain, share.ValidatorPubKey, role),
		Data:    encProp,
	}, receivedAt, nil)
	if err == nil {
		t.Fatalf("control failed: a consensus message for slot %d was accepted at slot %d", future, now)
	}

	// a partial-signature message for the same far-future slot
	msg := spectestingutils.PostConsensusAttestationMsg(ks.Shares[2], 2, specqbft.Height(future))
	enc, err := msg.Encode()
	if err != nil {
		t.Fatal(err)
	}
	_, _, err = validator.validateSSVMessage(&spectypes.SSVMessage{
		MsgType: spectypes.SSVPartialSignatureMsgType,
		MsgID:   spectypes.NewMsgID(netCfg.Domain, share.ValidatorPubKey, role),
		Data:    enc,
	}, receivedAt, nil)
	if err == nil {
		t.Errorf("C09 violated: a partial-signature message for slot %d was accepted at slot %d (no slot-window rule)", future, now)
	}

	// consequence: the same signer's genuine message for the current slot is now refused
	cur := spectestingutils.PostConsensusAttestationMsg(ks.Shares[2], 2, specqbft.Height(now))
	encCur, _ := cur.Encode()
	_, _, err = validator.validateSSVMessage(&spectypes.SSVMessage{
		MsgType: spectypes.SSVPartialSignatureMsgType,
		MsgID:   spectypes.NewMsgID(netCfg.Domain, share.ValidatorPubKey, role),
		Data:    encCur,
	}, receivedAt, nil)
	if err != nil {
		t.Logf("after the far-future message, the signer's message for the current slot is refused: %v", err)
	}
}
