package ekm

// Finding F6 (property C04): "When the protection record cannot be read or is missing the signer refuses to sign."
//
// (*storage).RetrieveHighestProposal returned errors.Wrap(err, "highest proposal value is empty") for a record that is
// present but empty; err is nil at that point, errors.Wrap(nil, ..) is nil, so the caller saw (slot 0, found, no error)
// and the slashing protector accepted every slot > 0 - including one the share had already signed.
//
// Run (nothing is written into the repository; the package's own tests do not build offline and are blanked):
//   /verif/findings/run_ekm_finding.sh /repo
//
// Failed obligations of the verifier: (*ekm.storage).RetrieveHighestProposal.empty_value_refused@ret2 and
// .found_means_read@ret2.

import (
	"testing"

	"github.com/attestantio/go-eth2-client/spec/altair"
	"github.com/attestantio/go-eth2-client/spec/bellatrix"
	"github.com/attestantio/go-eth2-client/spec/capella"
	"github.com/attestantio/go-eth2-client/spec/phase0"
	"github.com/bloxapp/eth2-key-manager/core"
	spectypes "github.com/bloxapp/ssv-spec/types"
	"github.com/herumi/bls-eth-go-binary/bls"
	"github.com/prysmaticlabs/go-bitfield"
	"go.uber.org/zap"

	"github.com/bloxapp/ssv/networkconfig"
	"github.com/bloxapp/ssv/storage/basedb"
	"github.com/bloxapp/ssv/storage/kv"
)

func verifF6Block(slot phase0.Slot, variant byte) *capella.BeaconBlock {
	return &capella.BeaconBlock{
		Slot:       slot,
		ParentRoot: phase0.Root{0x01},
		StateRoot:  phase0.Root{variant},
		Body: &capella.BeaconBlockBody{
			ETH1Data:          &phase0.ETH1Data{BlockHash: make([]byte, 32)},
			ProposerSlashings: []*phase0.ProposerSlashing{},
			AttesterSlashings: []*phase0.AttesterSlashing{},
			Attestations:      []*phase0.Attestation{},
			Deposits:          []*phase0.Deposit{},
			VoluntaryExits:    []*phase0.SignedVoluntaryExit{},
			SyncAggregate:     &altair.SyncAggregate{SyncCommitteeBits: bitfield.NewBitvector512()},
			ExecutionPayload: &capella.ExecutionPayload{
				Transactions: []bellatrix.Transaction{},
				Withdrawals:  []*capella.Withdrawal{},
			},
			BLSToExecutionChanges: []*capella.SignedBLSToExecutionChange{},
		},
	}
}

func TestVerifF6EmptyProposalRecordIsRefused(t *testing.T) {
	if err := core.InitBLS(); err != nil {
		t.Fatal(err)
	}
	db, err := kv.NewInMemory(zap.NewNop(), basedb.Options{})
	if err != nil {
		t.Fatal(err)
	}
	defer func() { _ = db.Close() }()

	kmi, err := NewETHKeyManagerSigner(zap.NewNop(), db, networkconfig.TestNetwork, false, "")
	if err != nil {
		t.Fatal(err)
	}
	km := kmi.(*ethKeyManagerSigner)

	sk := &bls.SecretKey{}
	if err := sk.SetHexString("3548db63ab5701878daf25fa877638dc7809778815b9d9ecd5369da33ca9e64f"); err != nil {
		t.Fatal(err)
	}
	pk := sk.GetPublicKey().Serialize()
	if err := km.AddShare(sk); err != nil {
		t.Fatal(err)
	}
	mark, found, err := km.RetrieveHighestProposal(pk)
	if err != nil || !found || mark == 0 {
		t.Fatalf("AddShare must leave a readable proposal record: %d %v %v", mark, found, err)
	}

	// the share signs a block for slot mark+10
	signed := mark + 10
	if _, _, err := km.SignBeaconObject(verifF6Block(signed, 0xaa), phase0.Domain{}, pk, spectypes.DomainProposer); err != nil {
		t.Fatalf("first block must be signed: %v", err)
	}

	// the record becomes unreadable: present, but with an empty value
	st := km.storage.(*storage)
	if err := db.Set(st.objPrefix(highestProposalPrefix), pk, []byte{}); err != nil {
		t.Fatal(err)
	}

	slot, found, err := st.RetrieveHighestProposal(pk)
	if err == nil {
		t.Errorf("unreadable proposal record reported as (slot %d, found %v, no error)", slot, found)
	}
	if err := km.IsBeaconBlockSlashable(pk, signed); err == nil {
		t.Errorf("IsBeaconBlockSlashable accepts slot %d although the protection record cannot be read", signed)
	}
	if _, _, err := km.SignBeaconObject(verifF6Block(signed, 0xbb), phase0.Domain{}, pk, spectypes.DomainProposer); err == nil {
		t.Errorf("C04 violated: a second, different block for slot %d was signed after the record became unreadable", signed)
	}
}
