package validation

// F20 (C08): a single-signer proposal whose Message.Height is >= 2^63 reaches specqbft.RoundRobinProposer before any slot or
// signature check: int(Height) is negative, int(Height) % len(Committee) is negative, Committee[-1] panics - a remote crash
// of the pubsub validator by one unsigned-as-far-as-anybody-checked message.

import (
	"context"
	"math"
	"testing"

	eth2apiv1 "github.com/attestantio/go-eth2-client/api/v1"
	specqbft "github.com/bloxapp/ssv-spec/qbft"
	spectypes "github.com/bloxapp/ssv-spec/types"
	spectestingutils "github.com/bloxapp/ssv-spec/types/testingutils"
	pubsub "github.com/libp2p/go-libp2p-pubsub"
	pspb "github.com/libp2p/go-libp2p-pubsub/pb"
	"github.com/libp2p/go-libp2p/core/peer"
	"github.com/prometheus/client_golang/prometheus"
	"github.com/stretchr/testify/require"
	"go.uber.org/zap/zaptest"

	"github.com/bloxapp/ssv/monitoring/metricsreporter"
	"github.com/bloxapp/ssv/network/commons"
	"github.com/bloxapp/ssv/networkconfig"
	"github.com/bloxapp/ssv/operator/storage"
	beaconprotocol "github.com/bloxapp/ssv/protocol/v2/blockchain/beacon"
	ssvtypes "github.com/bloxapp/ssv/protocol/v2/types"
	"github.com/bloxapp/ssv/storage/basedb"
	"github.com/bloxapp/ssv/storage/kv"
)

func c08fSeries(t *testing.T, name string) int {
	mfs, err := prometheus.DefaultGatherer.Gather()
	require.NoError(t, err)
	for _, mf := range mfs {
		if mf.GetName() == name {
			return len(mf.GetMetric())
		}
	}
	return 0
}

// Side finding 2 (unchanged code): with the production metrics reporter, message fields chosen by the
// remote peer are used as Prometheus label values before they are range-checked, so every rejected
// message with a fresh value leaves a new, never-freed time series behind (memory grows without bound
// over a history of rejected messages):
//   - SSVMessage.MsgType (any uint64) -> ssv_message_validation_ssv_type{type="unknown(N)"}; emitted in
//     validateP2PMessage before the validator is even looked up, so no known validator is needed;
//   - qbft Message.Round (any uint64) -> ssv_message_validation{round="N"} on reject/ignore;
//   - qbft Message.MsgType (any uint64) -> ssv_message_validation_consensus_type{type="unknown(N)"}.
func TestVerifObs_MetricLabelsGrowWithoutBound(t *testing.T) {
	logger := zaptest.NewLogger(t)
	db, err := kv.NewInMemory(logger, basedb.Options{})
	require.NoError(t, err)
	ns, err := storage.NewNodeStorage(logger, db)
	require.NoError(t, err)

	ks := spectestingutils.Testing4SharesSet()
	share := &ssvtypes.SSVShare{
		Share: *spectestingutils.TestingShare(ks),
		Metadata: ssvtypes.Metadata{
			BeaconMetadata: &beaconprotocol.ValidatorMetadata{Status: eth2apiv1.ValidatorStateActiveOngoing, Index: 123},
		},
	}
	require.NoError(t, ns.Shares().Save(nil, share))

	netCfg := networkconfig.TestNetwork
	validator := NewMessageValidator(netCfg, WithNodeStorage(ns), WithMetrics(metricsreporter.New())).(*messageValidator)

	const n = 300

	send := func(msg *spectypes.SSVMessage) pubsub.ValidationResult {
		encoded, err := commons.EncodeNetworkMsg(msg)
		require.NoError(t, err)
		topic := commons.GetTopicFullName(commons.ValidatorTopicID(msg.MsgID.GetPubKey())[0])
		pmsg := &pubsub.Message{Message: &pspb.Message{Data: encoded, Topic: &topic}}
		return validator.ValidatePubsubMessage(context.Background(), peer.ID("remote"), pmsg)
	}

	// (a) unknown SSV message types, for a validator public key this node has never heard of
	unknownPK := make([]byte, 48)
	unknownPK[0] = 0xaa
	before := c08fSeries(t, "ssv_message_validation_ssv_type")
	for i := 0; i < n; i++ {
		res := send(&spectypes.SSVMessage{
			MsgType: spectypes.MsgType(1000 + i),
			MsgID:   spectypes.NewMsgID(netCfg.Domain, unknownPK, spectypes.BNRoleAttester),
			Data:    []byte{1},
		})
		require.NotEqual(t, pubsub.ValidationAccept, res)
	}
	grewType := c08fSeries(t, "ssv_message_validation_ssv_type") - before
	t.Logf("ssv_message_validation_ssv_type: +%d series after %d rejected messages", grewType, n)

	// (b) out-of-range rounds and (c) unknown qbft message types, for a known validator
	beforeRound := c08fSeries(t, "ssv_message_validation")
	beforeQbft := c08fSeries(t, "ssv_message_validation_consensus_type")
	for i := 0; i < n; i++ {
		signed := spectestingutils.TestingProposalMessageWithHeight(ks.Shares[1], 1, 1)
		signed.Message.Round = specqbft.Round(1_000_000 + i)
		if i%2 == 1 {
			signed.Message.MsgType = specqbft.MessageType(1_000_000 + i)
		}
		data, err := signed.Encode()
		require.NoError(t, err)
		res := send(&spectypes.SSVMessage{
			MsgType: spectypes.SSVConsensusMsgType,
			MsgID:   spectypes.NewMsgID(netCfg.Domain, share.ValidatorPubKey, spectypes.BNRoleAttester),
			Data:    data,
		})
		require.NotEqual(t, pubsub.ValidationAccept, res)
	}
	grewRound := c08fSeries(t, "ssv_message_validation") - beforeRound
	grewQbft := c08fSeries(t, "ssv_message_validation_consensus_type") - beforeQbft
	t.Logf("ssv_message_validation: +%d series, ssv_message_validation_consensus_type: +%d series after %d rejected messages", grewRound, grewQbft, n)

	// A bounded validator would keep a fixed, small set of label values no matter how many messages it rejects.
	require.Less(t, grewType, 10, "one new ssv_type series per rejected message")
	require.Less(t, grewRound, 10, "one new result series per rejected message (round label)")
	require.Less(t, grewQbft, 10, "one new consensus_type series per rejected message")
}

// Side finding (unchanged code): a single-signer proposal whose Height has the top bit set
// (e.g. math.MaxUint64, or any height >= 2^63 that is not a multiple of the committee size after
// int conversion) makes validConsensusSigners -> specqbft.RoundRobinProposer index the committee
// with a negative number: int(Height) is negative, Go's % keeps the sign, Committee[-1] panics.
// validConsensusSigners runs before validateSlotTime and before the signature verifier, so nothing
// about the message has to be authentic: a known validator public key is enough.
func TestVerifF20_HugeHeightProposalPanics(t *testing.T) {
	logger := zaptest.NewLogger(t)
	db, err := kv.NewInMemory(logger, basedb.Options{})
	require.NoError(t, err)
	ns, err := storage.NewNodeStorage(logger, db)
	require.NoError(t, err)

	ks := spectestingutils.Testing4SharesSet()
	share := &ssvtypes.SSVShare{
		Share: *spectestingutils.TestingShare(ks),
		Metadata: ssvtypes.Metadata{
			BeaconMetadata: &beaconprotocol.ValidatorMetadata{
				Status: eth2apiv1.ValidatorStateActiveOngoing,
				Index:  123,
			},
		},
	}
	require.NoError(t, ns.Shares().Save(nil, share))

	netCfg := networkconfig.TestNetwork
	validator := NewMessageValidator(netCfg, WithNodeStorage(ns)).(*messageValidator)
	slot := netCfg.Beacon.FirstSlotAtEpoch(1)
	receivedAt := netCfg.Beacon.GetSlotStartTime(slot)

	for _, h := range []specqbft.Height{math.MaxUint64, math.MaxUint64 - 1, 1<<63 + 1} {
		signed := spectestingutils.TestingProposalMessageWithHeight(ks.Shares[1], 1, h)
		data, err := signed.Encode()
		require.NoError(t, err)
		msg := &spectypes.SSVMessage{
			MsgType: spectypes.SSVConsensusMsgType,
			MsgID:   spectypes.NewMsgID(netCfg.Domain, share.ValidatorPubKey, spectypes.BNRoleAttester),
			Data:    data,
		}
		func() {
			defer func() {
				if r := recover(); r != nil {
					t.Errorf("height %d: validation panicked: %v", uint64(h), r)
				}
			}()
			_, _, err := validator.validateSSVMessage(msg, receivedAt, nil)
			t.Logf("height %d: err=%v", uint64(h), err)
		}()

		// The same bytes through the pubsub entry point (what libp2p calls for every gossip message).
		encoded, err := commons.EncodeNetworkMsg(msg)
		require.NoError(t, err)
		topic := commons.GetTopicFullName(commons.ValidatorTopicID(share.ValidatorPubKey)[0])
		pmsg := &pubsub.Message{Message: &pspb.Message{Data: encoded, Topic: &topic}}
		func() {
			defer func() {
				if r := recover(); r != nil {
					t.Errorf("height %d: ValidatePubsubMessage panicked: %v", uint64(h), r)
				}
			}()
			res := validator.ValidatePubsubMessage(context.Background(), peer.ID("remote"), pmsg)
			t.Logf("height %d: pubsub result=%v", uint64(h), res)
		}()
	}
}

// Note for the fix of the panic above: moving validateSlotTime before validConsensusSigners is not enough.
// GetSlotStartTime multiplies the slot by 12 in uint64, which wraps, so slot+2^63 (and slot+2^62) has the same
// start time as slot and passes the early/late checks while int(height) is still negative.
