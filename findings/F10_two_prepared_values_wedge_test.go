// F10 (C07): with one crashed operator and pre-GST message loss two correct operators can be prepared on
// different values in different rounds; every later leader's proposal is then unjustifiable (isProposalJustification
// validates every round change of the quorum against the PROPOSED data), and the correct operators time out to the
// cut-off although delivery is timely. Helpers are those of the seed C07_e demonstration.
package instance

// Demonstration for seeded change C07/e.
//
// Four real QBFT instances (round-robin leader, real signatures, real message
// validation) are wired together through an in-memory network. The tests drive
// only the production entry points: Instance.Start, Instance.ProcessMsg and
// Instance.UponRoundTimeout (what Controller.OnTimeout calls).
//
// Property C07: with at most f silent operators and timely delivery among the
// correct ones, all correct operators decide within f+3 further rounds; in the
// fault-free case everybody decides in round 1 on the leader's value.

import (
	"bytes"
	"testing"

	specqbft "github.com/bloxapp/ssv-spec/qbft"
	spectypes "github.com/bloxapp/ssv-spec/types"
	"github.com/bloxapp/ssv-spec/types/testingutils"
	"github.com/pkg/errors"
	"github.com/stretchr/testify/require"
	"go.uber.org/zap"

	"github.com/bloxapp/ssv/protocol/v2/qbft"
	"github.com/bloxapp/ssv/protocol/v2/types"
)

// seedENet is the shared in-memory "p2p" layer: every broadcast is queued and later
// delivered to every live operator (including the sender, like pubsub does).
type seedENet struct {
	queue []*specqbft.SignedMessage
}

type seedEEndpoint struct {
	net    *seedENet
	silent *bool
}

func (e *seedEEndpoint) Broadcast(msg *spectypes.SSVMessage) error {
	if *e.silent {
		return nil
	}
	signed := &specqbft.SignedMessage{}
	if err := signed.Decode(msg.Data); err != nil {
		return err
	}
	e.net.queue = append(e.net.queue, signed)
	return nil
}

// seedETimer records the last armed round, timeouts are fired explicitly by the test.
type seedETimer struct {
	armed specqbft.Round
}

func (t *seedETimer) TimeoutForRound(_ specqbft.Height, round specqbft.Round) {
	t.armed = round
}

type seedEOperator struct {
	id     spectypes.OperatorID
	inst   *Instance
	timer  *seedETimer
	value  []byte
	silent bool
}

type seedECluster struct {
	t      *testing.T
	logger *zap.Logger
	net    *seedENet
	ops    []*seedEOperator
	height specqbft.Height
}

func seedEValue(id spectypes.OperatorID) []byte {
	return []byte{0xE0, byte(id), 0x01, 0x02, 0x03}
}

func newSeedECluster(t *testing.T, height specqbft.Height) *seedECluster {
	types.SetDefaultDomain(testingutils.TestingSSVDomainType)

	ks := testingutils.Testing4SharesSet()
	identifier := spectypes.NewMsgID(testingutils.TestingSSVDomainType, ks.ValidatorPK.Serialize(), spectypes.BNRoleAttester)

	c := &seedECluster{
		t:      t,
		logger: zap.NewNop(),
		net:    &seedENet{},
		height: height,
	}
	for id := spectypes.OperatorID(1); id <= 4; id++ {
		op := &seedEOperator{id: id, timer: &seedETimer{}, value: seedEValue(id)}
		share := &spectypes.Share{
			OperatorID:      id,
			ValidatorPubKey: ks.ValidatorPK.Serialize(),
			SharePubKey:     ks.Shares[id].GetPublicKey().Serialize(),
			DomainType:      testingutils.TestingSSVDomainType,
			Quorum:          ks.Threshold,
			PartialQuorum:   ks.PartialThreshold,
			Committee:       ks.Committee(),
		}
		cfg := &qbft.Config{
			Signer:    testingutils.NewTestingKeyManager(),
			SigningPK: ks.Shares[id].GetPublicKey().Serialize(),
			Domain:    testingutils.TestingSSVDomainType,
			ValueCheckF: func(data []byte) error {
				// same base rule as the project's testing config / production value checks:
				// an empty value is never acceptable
				if len(data) == 0 {
					return errors.New("invalid value")
				}
				return nil
			},
			ProposerF:             specqbft.RoundRobinProposer,
			Network:               &seedEEndpoint{net: c.net, silent: &op.silent},
			Timer:                 op.timer,
			SignatureVerification: true,
		}
		op.inst = NewInstance(cfg, share, identifier[:], height)
		c.ops = append(c.ops, op)
	}
	return c
}

func (c *seedECluster) op(id spectypes.OperatorID) *seedEOperator { return c.ops[id-1] }

func (c *seedECluster) leader(round specqbft.Round) spectypes.OperatorID {
	return specqbft.RoundRobinProposer(c.ops[0].inst.State, round)
}

// startAll starts the instance of every live operator with its own input value.
func (c *seedECluster) startAll() {
	for _, op := range c.ops {
		if op.silent {
			continue
		}
		op.inst.Start(c.logger, op.value, c.height)
	}
}

// deliverAll delivers every queued message (and everything sent in reaction to it) to all live operators.
func (c *seedECluster) deliverAll() {
	for steps := 0; len(c.net.queue) > 0; steps++ {
		require.Less(c.t, steps, 10000, "message storm")
		msg := c.net.queue[0]
		c.net.queue = c.net.queue[1:]
		for _, op := range c.ops {
			if op.silent {
				continue
			}
			byts, err := msg.Encode()
			require.NoError(c.t, err)
			cp := &specqbft.SignedMessage{}
			require.NoError(c.t, cp.Decode(byts))
			// errors are the normal "message rejected" path (late / duplicate messages etc.)
			_, _, _, _ = op.inst.ProcessMsg(c.logger, cp)
		}
	}
}

// timeoutAll fires the round timer of every live, undecided operator (the path of Controller.OnTimeout).
func (c *seedECluster) timeoutAll() {
	for _, op := range c.ops {
		if op.silent {
			continue
		}
		if decided, _ := op.inst.IsDecided(); decided {
			continue
		}
		before := op.inst.State.Round
		require.NoError(c.t, op.inst.UponRoundTimeout(c.logger))
		require.Equal(c.t, before+1, op.inst.State.Round, "timeout must move operator %d to the next round", op.id)
		require.Equal(c.t, before+1, op.timer.armed, "timeout must re-arm the timer of operator %d", op.id)
	}
}

func (c *seedECluster) allCorrectDecided() bool {
	for _, op := range c.ops {
		if op.silent {
			continue
		}
		if decided, _ := op.inst.IsDecided(); !decided {
			return false
		}
	}
	return true
}

func (c *seedECluster) describe() string {
	var b bytes.Buffer
	for _, op := range c.ops {
		decided, _ := op.inst.IsDecided()
		b.WriteString("op ")
		b.WriteByte('0' + byte(op.id))
		if op.silent {
			b.WriteString(" silent; ")
			continue
		}
		b.WriteString(" round=")
		b.WriteByte('0' + byte(op.inst.State.Round))
		if decided {
			b.WriteString(" decided; ")
		} else {
			b.WriteString(" undecided; ")
		}
	}
	return b.String()
}

// Fault-free, synchronous: everybody decides in round 1 on the leader's value (all leader rotations).
func disabledSeedE_FaultFreeFirstRoundDecides(t *testing.T) {
	for h := specqbft.Height(0); h < 4; h++ {
		c := newSeedECluster(t, h)
		c.startAll()
		c.deliverAll()

		leader := c.leader(specqbft.FirstRound)
		for _, op := range c.ops {
			decided, val := op.inst.IsDecided()
			require.True(t, decided, "height %d: operator %d did not decide in the fault-free first round", h, op.id)
			require.EqualValues(t, specqbft.FirstRound, op.inst.State.Round)
			require.Equal(t, c.op(leader).value, val, "height %d: decided value is not the leader's value", h)
		}
	}
}

// The first-round leader is crashed (one silent operator, f = 1). With timely delivery among the three
// correct operators, a timeout must lead to a decision within f+3 further rounds (here: already in round 2,
// whose leader is correct). Checked for every leader rotation.
func disabledSeedE_CrashedFirstLeaderStillTerminates(t *testing.T) {
	const f = 1
	for h := specqbft.Height(0); h < 4; h++ {
		c := newSeedECluster(t, h)
		crashed := c.leader(specqbft.FirstRound)
		c.op(crashed).silent = true

		c.startAll()
		c.deliverAll()
		require.False(t, c.allCorrectDecided(), "nobody can decide without a proposal")

		rounds := 0
		for ; rounds < f+3 && !c.allCorrectDecided(); rounds++ {
			c.timeoutAll()
			c.deliverAll()
		}
		require.True(t, c.allCorrectDecided(),
			"height %d: leader %d crashed, correct operators still undecided after %d further rounds with timely delivery: %s",
			h, crashed, rounds, c.describe())

		// agreement + validity: the decided value is the input of a correct operator
		var decidedVal []byte
		for _, op := range c.ops {
			if op.silent {
				continue
			}
			_, val := op.inst.IsDecided()
			if decidedVal == nil {
				decidedVal = val
			}
			require.Equal(t, decidedVal, val)
		}
		valid := false
		for _, op := range c.ops {
			if !op.silent && bytes.Equal(op.value, decidedVal) {
				valid = true
			}
		}
		require.True(t, valid, "height %d: decided value %x is nobody's input", h, decidedVal)
	}
}

// deliverWhere delivers the currently queued messages (and follow-ups) only where allow() says so; the rest is dropped.
func (c *seedECluster) deliverWhere(allow func(msg *specqbft.SignedMessage, to spectypes.OperatorID) bool) {
	for len(c.net.queue) > 0 {
		msg := c.net.queue[0]
		c.net.queue = c.net.queue[1:]
		for _, op := range c.ops {
			if op.silent || !allow(msg, op.id) {
				continue
			}
			byts, _ := msg.Encode()
			cp := &specqbft.SignedMessage{}
			require.NoError(c.t, cp.Decode(byts))
			_, _, _, _ = op.inst.ProcessMsg(c.logger, cp)
		}
	}
}

func TestVerifF10TwoDifferentPreparedValuesWedge(t *testing.T) {
	c := newSeedECluster(t, 0) // leaders: r1->1, r2->2, r3->3, r4->4, r5->1, r6->2
	c.startAll()

	// round 1: proposal reaches everybody, prepares reach only op1, commits are lost
	c.deliverWhere(func(m *specqbft.SignedMessage, to spectypes.OperatorID) bool {
		switch m.Message.MsgType {
		case specqbft.ProposalMsgType:
			return true
		case specqbft.PrepareMsgType:
			return to == 1
		}
		return false
	})
	require.EqualValues(t, 1, c.op(1).inst.State.LastPreparedRound)
	require.EqualValues(t, 0, c.op(2).inst.State.LastPreparedRound)

	// everybody times out; op1's (prepared) round change is lost, 2,3,4 form the quorum; op2 proposes its own value;
	// prepares of round 2 reach only op2; commits lost
	c.timeoutAll()
	c.deliverWhere(func(m *specqbft.SignedMessage, to spectypes.OperatorID) bool {
		switch m.Message.MsgType {
		case specqbft.RoundChangeMsgType:
			return m.Signers[0] != 1
		case specqbft.ProposalMsgType:
			return true
		case specqbft.PrepareMsgType:
			return to == 2
		}
		return false
	})
	require.EqualValues(t, 1, c.op(1).inst.State.LastPreparedRound)
	require.Equal(t, seedEValue(1), c.op(1).inst.State.LastPreparedValue)
	require.EqualValues(t, 2, c.op(2).inst.State.LastPreparedRound)
	require.Equal(t, seedEValue(2), c.op(2).inst.State.LastPreparedValue)
	require.EqualValues(t, 0, c.op(3).inst.State.LastPreparedRound)
	for _, op := range c.ops {
		require.EqualValues(t, 2, op.inst.State.Round)
		d, _ := op.inst.IsDecided()
		require.False(t, d)
	}

	// op4 crashes: exactly f = 1 faulty operator. From now on timely delivery among 1,2,3.
	c.op(4).silent = true
	c.timeoutAll()
	c.deliverAll()
	{
		st := c.op(3).inst.State
		rcs := st.RoundChangeContainer.MessagesForRound(3)
		require.Len(t, rcs, 3)
		for _, rc := range rcs {
			just, _ := rc.Message.GetRoundChangeJustifications()
			for _, v := range [][]byte{seedEValue(1), seedEValue(2), seedEValue(3)} {
				err := isProposalJustification(st, c.op(3).inst.config, rcs, just, st.Height, 3, v, c.op(3).inst.config.GetValueCheckF())
				t.Logf("leader op3, rc of %v (dataRound %d) value %x: %v", rc.Signers, rc.Message.DataRound, v, err)
			}
		}
	}
	rounds := 1
	for ; rounds < 12 && !c.allCorrectDecided(); rounds++ {
		c.timeoutAll()
		c.deliverAll()
	}
	t.Logf("after %d further rounds: %s", rounds, c.describe())
	require.True(t, c.allCorrectDecided(), "wedged: %s", c.describe())
}
