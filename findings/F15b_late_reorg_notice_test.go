// Side findings for C16 on the UNCHANGED tree (all tests below FAIL on the clean checkout /tmp/wt_C16f).
// Drop into operator/duties as zz_c16f_side_test.go and run
//   go test -vet=off -count=1 -overlay /tmp/quic_ov/ov.json -ldflags=-checklinkname=0 ./operator/duties/ -run TestC16fSide -v
//
// Main finding (A): a reorg notice {Slot: last slot of epoch e, Current: true} that the handler consumes only AFTER
// the tick of the first slot of epoch e+1 resets epoch e+1 (now the current epoch) and only sets fetchNextEpoch;
// nothing re-fetches epoch e+1, so every attester duty of epoch e+1 is lost although its assignment had been fetched.
//   TestVerifF15b_Attester_LateReorgCurrentLosesEpoch      - notice injected on Scheduler.reorg after the tick (deterministic)
//   TestVerifF15b_Attester_LateReorgCurrent_ViaHeadEvent   - same order reached through HandleHeadEvent + ticker only
//                                                           (handler busy in a fetch; select picks tick first ~50%)
//   TestVerifF15b_Sync_LateReorgCurrentLosesPeriod         - sync-committee analogue at a period boundary: current
//                                                           period reset, period+2 fetched instead, nothing dispatched
// Further observations:
//   TestC16fSide_Attester_IndexChangeFetchFailLosesSlot   - index change + one failed re-fetch: epoch reset before the
//                                                           fetch, the next slot's (already fetched) duty is not dispatched
//   TestC16fSide_Proposer_AllRemovedStaleDuty             - last validator removed: early return before ResetEpoch,
//                                                           removed validator's duty still dispatched
//   TestC16fSide_Sync_IndexChangeLastEpochEarlySlot       - validator added in last epoch of a period at slot%32 < 15:
//                                                           next period not re-fetched, its duties never dispatched
package duties

import (
	"context"
	"errors"
	"fmt"
	"sort"
	"sync"
	"testing"
	"time"

	eth2apiv1 "github.com/attestantio/go-eth2-client/api/v1"
	"github.com/attestantio/go-eth2-client/spec/phase0"
	spectypes "github.com/bloxapp/ssv-spec/types"
	"github.com/golang/mock/gomock"
	"github.com/stretchr/testify/require"
	"go.uber.org/zap"

	"github.com/bloxapp/ssv/operator/duties/dutystore"
	"github.com/bloxapp/ssv/operator/duties/mocks"
	mocknetwork "github.com/bloxapp/ssv/protocol/v2/blockchain/beacon/mocks"
)

// c16fWorld is a scripted beacon node + validator set + dispatch recorder.
type c16fWorld struct {
	mu         sync.Mutex
	indices    []phase0.ValidatorIndex
	att        map[phase0.Epoch][]*eth2apiv1.AttesterDuty
	prop       map[phase0.Epoch][]*eth2apiv1.ProposerDuty
	sync       map[uint64][]*eth2apiv1.SyncCommitteeDuty
	failNext   int           // number of upcoming duty fetches that fail
	gate       chan struct{} // when non-nil, attester fetches block until it is closed
	fetches    []string      // log of BN duty calls
	dispatched []string      // log of executeDuty calls "role/slot/validator"
}

func (w *c16fWorld) setIndices(ix ...phase0.ValidatorIndex) {
	w.mu.Lock()
	defer w.mu.Unlock()
	w.indices = ix
}

func (w *c16fWorld) getIndices() []phase0.ValidatorIndex {
	w.mu.Lock()
	defer w.mu.Unlock()
	return append([]phase0.ValidatorIndex(nil), w.indices...)
}

func (w *c16fWorld) has(ix []phase0.ValidatorIndex, v phase0.ValidatorIndex) bool {
	for _, i := range ix {
		if i == v {
			return true
		}
	}
	return false
}

func (w *c16fWorld) fail() bool {
	if w.failNext > 0 {
		w.failNext--
		return true
	}
	return false
}

func (w *c16fWorld) dispatchedCopy() []string {
	w.mu.Lock()
	defer w.mu.Unlock()
	out := append([]string(nil), w.dispatched...)
	sort.Strings(out)
	return out
}

func (w *c16fWorld) fetchesCopy() []string {
	w.mu.Lock()
	defer w.mu.Unlock()
	return append([]string(nil), w.fetches...)
}

func c16fInstall(s *Scheduler, w *c16fWorld) {
	bn := s.beaconNode.(*mocks.MockBeaconNode)
	vc := s.validatorController.(*mocks.MockValidatorController)
	net := s.network.Beacon.(*mocknetwork.MockBeaconNetwork)

	vc.EXPECT().CommitteeActiveIndices(gomock.Any()).DoAndReturn(func(phase0.Epoch) []phase0.ValidatorIndex {
		return w.getIndices()
	}).AnyTimes()
	vc.EXPECT().AllActiveIndices(gomock.Any(), gomock.Any()).DoAndReturn(func(phase0.Epoch, bool) []phase0.ValidatorIndex {
		return w.getIndices()
	}).AnyTimes()

	bn.EXPECT().AttesterDuties(gomock.Any(), gomock.Any(), gomock.Any()).DoAndReturn(
		func(ctx context.Context, epoch phase0.Epoch, indices []phase0.ValidatorIndex) ([]*eth2apiv1.AttesterDuty, error) {
			w.mu.Lock()
			gate := w.gate
			w.mu.Unlock()
			if gate != nil {
				<-gate
			}
			w.mu.Lock()
			defer w.mu.Unlock()
			if w.fail() {
				w.fetches = append(w.fetches, fmt.Sprintf("att/e%d/FAIL", epoch))
				return nil, errors.New("beacon node unavailable")
			}
			w.fetches = append(w.fetches, fmt.Sprintf("att/e%d", epoch))
			var out []*eth2apiv1.AttesterDuty
			for _, d := range w.att[epoch] {
				if w.has(indices, d.ValidatorIndex) {
					out = append(out, d)
				}
			}
			return out, nil
		}).AnyTimes()
	bn.EXPECT().ProposerDuties(gomock.Any(), gomock.Any(), gomock.Any()).DoAndReturn(
		func(ctx context.Context, epoch phase0.Epoch, indices []phase0.ValidatorIndex) ([]*eth2apiv1.ProposerDuty, error) {
			w.mu.Lock()
			defer w.mu.Unlock()
			if w.fail() {
				w.fetches = append(w.fetches, fmt.Sprintf("prop/e%d/FAIL", epoch))
				return nil, errors.New("beacon node unavailable")
			}
			w.fetches = append(w.fetches, fmt.Sprintf("prop/e%d", epoch))
			var out []*eth2apiv1.ProposerDuty
			for _, d := range w.prop[epoch] {
				if w.has(indices, d.ValidatorIndex) {
					out = append(out, d)
				}
			}
			return out, nil
		}).AnyTimes()
	bn.EXPECT().SyncCommitteeDuties(gomock.Any(), gomock.Any(), gomock.Any()).DoAndReturn(
		func(ctx context.Context, epoch phase0.Epoch, indices []phase0.ValidatorIndex) ([]*eth2apiv1.SyncCommitteeDuty, error) {
			w.mu.Lock()
			defer w.mu.Unlock()
			period := uint64(epoch) / 256
			if w.fail() {
				w.fetches = append(w.fetches, fmt.Sprintf("sync/p%d/FAIL", period))
				return nil, errors.New("beacon node unavailable")
			}
			w.fetches = append(w.fetches, fmt.Sprintf("sync/p%d", period))
			var out []*eth2apiv1.SyncCommitteeDuty
			for _, d := range w.sync[period] {
				if w.has(indices, d.ValidatorIndex) {
					out = append(out, d)
				}
			}
			return out, nil
		}).AnyTimes()
	bn.EXPECT().SubmitBeaconCommitteeSubscriptions(gomock.Any(), gomock.Any()).Return(nil).AnyTimes()
	bn.EXPECT().SubmitSyncCommitteeSubscriptions(gomock.Any(), gomock.Any()).Return(nil).AnyTimes()

	net.EXPECT().EstimatedSyncCommitteePeriodAtEpoch(gomock.Any()).DoAndReturn(func(epoch phase0.Epoch) uint64 {
		return uint64(epoch) / 256
	}).AnyTimes()
	net.EXPECT().FirstEpochOfSyncPeriod(gomock.Any()).DoAndReturn(func(period uint64) phase0.Epoch {
		return phase0.Epoch(period * 256)
	}).AnyTimes()
	net.EXPECT().LastSlotOfSyncPeriod(gomock.Any()).DoAndReturn(func(period uint64) phase0.Slot {
		return phase0.Slot((period+1)*256*32 - 2)
	}).AnyTimes()
	net.EXPECT().GetEpochFirstSlot(gomock.Any()).DoAndReturn(func(epoch phase0.Epoch) phase0.Slot {
		return phase0.Slot(uint64(epoch) * 32)
	}).AnyTimes()

	s.executeDuty = func(_ *zap.Logger, duty *spectypes.Duty) {
		w.mu.Lock()
		defer w.mu.Unlock()
		w.dispatched = append(w.dispatched, fmt.Sprintf("%s/s%d/v%d", duty.Type.String(), duty.Slot, duty.ValidatorIndex))
	}
}

// settle gives the handler goroutine (and the 1/3-slot waiter, 50ms in this harness) time to finish.
const c16fSettle = 130 * time.Millisecond

func c16fTick(ticker *mockSlotTickerService, cur *SlotValue, slot phase0.Slot) {
	cur.SetSlot(slot)
	ticker.Send(slot)
	time.Sleep(c16fSettle)
}

// Attester: a "current dependent root changed" notice raised for the last slot of epoch 1 is consumed by the handler
// only after the tick of the first slot of epoch 2 (both were ready; select picks either). The handler resets
// "epoch 1 + 1" = the epoch that is current by now and only flags a next-epoch fetch, so epoch 2 is never fetched again.
func TestVerifF15b_Attester_LateReorgCurrentLosesEpoch(t *testing.T) {
	handler := NewAttesterHandler(dutystore.NewDuties[eth2apiv1.AttesterDuty]())
	cur := &SlotValue{}
	cur.SetSlot(62)
	s, _, ticker, _, cancel, pool, start := setupSchedulerAndMocks(t, handler, cur)
	w := &c16fWorld{
		indices: []phase0.ValidatorIndex{1},
		att: map[phase0.Epoch][]*eth2apiv1.AttesterDuty{
			2: {{PubKey: phase0.BLSPubKey{1}, Slot: 66, ValidatorIndex: 1}, {PubKey: phase0.BLSPubKey{1}, Slot: 64, ValidatorIndex: 7}},
		},
	}
	c16fInstall(s, w)
	start()

	c16fTick(ticker, cur, 62) // first run: fetches epoch 1 and epoch 2
	c16fTick(ticker, cur, 63)
	c16fTick(ticker, cur, 64)
	require.Contains(t, w.fetchesCopy(), "att/e2", "epoch 2 was fetched successfully before its ticks")

	s.reorg <- ReorgEvent{Slot: 63, Current: true}
	time.Sleep(c16fSettle)

	c16fTick(ticker, cur, 65)
	c16fTick(ticker, cur, 66)
	c16fTick(ticker, cur, 67)
	t.Logf("fetches: %v", w.fetchesCopy())
	t.Logf("dispatched: %v", w.dispatchedCopy())
	require.Equal(t, []string{"AGGREGATOR/s66/v1", "ATTESTER/s66/v1"}, w.dispatchedCopy())

	cancel()
	require.NoError(t, pool.Wait())
}

// Sync committee: same ordering at a period boundary.
func TestVerifF15b_Sync_LateReorgCurrentLosesPeriod(t *testing.T) {
	handler := NewSyncCommitteeHandler(dutystore.NewSyncCommitteeDuties())
	cur := &SlotValue{}
	cur.SetSlot(8190)
	s, _, ticker, _, cancel, pool, start := setupSchedulerAndMocks(t, handler, cur)
	w := &c16fWorld{
		indices: []phase0.ValidatorIndex{1},
		sync: map[uint64][]*eth2apiv1.SyncCommitteeDuty{
			1: {{PubKey: phase0.BLSPubKey{1}, ValidatorIndex: 1}},
		},
	}
	c16fInstall(s, w)
	start()

	c16fTick(ticker, cur, 8190)
	c16fTick(ticker, cur, 8191)
	c16fTick(ticker, cur, 8192)
	s.reorg <- ReorgEvent{Slot: 8191, Current: true}
	time.Sleep(c16fSettle)
	c16fTick(ticker, cur, 8193)
	c16fTick(ticker, cur, 8194)
	t.Logf("fetches: %v", w.fetchesCopy())
	t.Logf("dispatched: %v", w.dispatchedCopy())
	require.Equal(t, []string{
		"SYNC_COMMITTEE/s8192/v1", "SYNC_COMMITTEE/s8193/v1", "SYNC_COMMITTEE/s8194/v1",
		"SYNC_COMMITTEE_CONTRIBUTION/s8192/v1", "SYNC_COMMITTEE_CONTRIBUTION/s8193/v1", "SYNC_COMMITTEE_CONTRIBUTION/s8194/v1",
	}, w.dispatchedCopy())

	cancel()
	require.NoError(t, pool.Wait())
}

// Attester: index change, then the re-fetch of the current epoch fails once. The epoch was reset before the fetch,
// so the duty of the next slot (whose assignment had been fetched successfully) is not dispatched.
func TestC16fSide_Attester_IndexChangeFetchFailLosesSlot(t *testing.T) {
	handler := NewAttesterHandler(dutystore.NewDuties[eth2apiv1.AttesterDuty]())
	cur := &SlotValue{}
	cur.SetSlot(2)
	s, _, ticker, _, cancel, pool, start := setupSchedulerAndMocks(t, handler, cur)
	w := &c16fWorld{
		indices: []phase0.ValidatorIndex{1},
		att: map[phase0.Epoch][]*eth2apiv1.AttesterDuty{
			0: {{PubKey: phase0.BLSPubKey{1}, Slot: 4, ValidatorIndex: 1}},
		},
	}
	c16fInstall(s, w)
	start()

	c16fTick(ticker, cur, 2)
	s.indicesChg <- struct{}{}
	time.Sleep(c16fSettle)
	w.mu.Lock()
	w.failNext = 1
	w.mu.Unlock()
	c16fTick(ticker, cur, 3)
	c16fTick(ticker, cur, 4)
	c16fTick(ticker, cur, 5)
	t.Logf("fetches: %v", w.fetchesCopy())
	t.Logf("dispatched: %v", w.dispatchedCopy())
	require.Equal(t, []string{"AGGREGATOR/s4/v1", "ATTESTER/s4/v1"}, w.dispatchedCopy())

	cancel()
	require.NoError(t, pool.Wait())
}

// Proposer: the last validator is removed; the handler returns before resetting the epoch, so the removed validator's
// duty is still dispatched.
func TestC16fSide_Proposer_AllRemovedStaleDuty(t *testing.T) {
	handler := NewProposerHandler(dutystore.NewDuties[eth2apiv1.ProposerDuty]())
	cur := &SlotValue{}
	cur.SetSlot(1)
	s, _, ticker, _, cancel, pool, start := setupSchedulerAndMocks(t, handler, cur)
	w := &c16fWorld{
		indices: []phase0.ValidatorIndex{1},
		prop: map[phase0.Epoch][]*eth2apiv1.ProposerDuty{
			0: {{PubKey: phase0.BLSPubKey{1}, Slot: 3, ValidatorIndex: 1}},
		},
	}
	c16fInstall(s, w)
	start()

	c16fTick(ticker, cur, 1)
	w.setIndices()
	s.indicesChg <- struct{}{}
	time.Sleep(c16fSettle)
	c16fTick(ticker, cur, 2)
	c16fTick(ticker, cur, 3)
	t.Logf("fetches: %v", w.fetchesCopy())
	t.Logf("dispatched: %v", w.dispatchedCopy())
	require.Empty(t, w.dispatchedCopy())

	cancel()
	require.NoError(t, pool.Wait())
}

// Sync committee: a validator is added in the last epoch of the period before slot 15; the next period (already
// fetched in the epoch before) is not fetched again, so the new validator's duties in the new period are not dispatched.
func TestC16fSide_Sync_IndexChangeLastEpochEarlySlot(t *testing.T) {
	handler := NewSyncCommitteeHandler(dutystore.NewSyncCommitteeDuties())
	cur := &SlotValue{}
	first := phase0.Slot(255*32 + 2)
	cur.SetSlot(first)
	s, _, ticker, _, cancel, pool, start := setupSchedulerAndMocks(t, handler, cur)
	w := &c16fWorld{
		indices: []phase0.ValidatorIndex{1},
		sync: map[uint64][]*eth2apiv1.SyncCommitteeDuty{
			1: {{PubKey: phase0.BLSPubKey{1}, ValidatorIndex: 1}, {PubKey: phase0.BLSPubKey{2}, ValidatorIndex: 2}},
		},
	}
	c16fInstall(s, w)
	start()

	c16fTick(ticker, cur, first) // fetches period 0 and period 1 for validator 1
	w.setIndices(1, 2)
	s.indicesChg <- struct{}{}
	time.Sleep(c16fSettle)
	for slot := first + 1; slot <= 8192; slot++ {
		cur.SetSlot(slot)
		ticker.Send(slot)
		time.Sleep(30 * time.Millisecond)
	}
	time.Sleep(c16fSettle)
	t.Logf("fetches: %v", w.fetchesCopy())
	t.Logf("dispatched: %v", w.dispatchedCopy())
	require.Equal(t, []string{
		"SYNC_COMMITTEE/s8192/v1", "SYNC_COMMITTEE/s8192/v2",
		"SYNC_COMMITTEE_CONTRIBUTION/s8192/v1", "SYNC_COMMITTEE_CONTRIBUTION/s8192/v2",
	}, w.dispatchedCopy())

	cancel()
	require.NoError(t, pool.Wait())
}

// The same ordering reached through the real entry points only: the handler is busy with a (slow) re-fetch during
// the last slot of epoch 1, the head event of that slot passes HandleHeadEvent's slot check and queues its reorg
// notice, the next slot's tick fires, and when the handler returns to its select both are ready. Go picks either;
// whenever the tick wins, epoch 2 is lost.
func TestVerifF15b_Attester_LateReorgCurrent_ViaHeadEvent(t *testing.T) {
	lost := 0
	const attempts = 12
	for i := 0; i < attempts; i++ {
		handler := NewAttesterHandler(dutystore.NewDuties[eth2apiv1.AttesterDuty]())
		cur := &SlotValue{}
		cur.SetSlot(62)
		s, logger, ticker, _, cancel, pool, start := setupSchedulerAndMocks(t, handler, cur)
		w := &c16fWorld{
			indices: []phase0.ValidatorIndex{1},
			att: map[phase0.Epoch][]*eth2apiv1.AttesterDuty{
				2: {{PubKey: phase0.BLSPubKey{1}, Slot: 66, ValidatorIndex: 1}},
			},
		}
		c16fInstall(s, w)
		start()

		c16fTick(ticker, cur, 62)
		s.HandleHeadEvent(logger)(&eth2apiv1.Event{Data: &eth2apiv1.HeadEvent{Slot: 62, CurrentDutyDependentRoot: phase0.Root{0xa}}})
		s.indicesChg <- struct{}{}
		time.Sleep(c16fSettle)

		gate := make(chan struct{})
		w.mu.Lock()
		w.gate = gate
		w.mu.Unlock()
		cur.SetSlot(63)
		ticker.Send(phase0.Slot(63)) // handler: execute, reset, re-fetch (blocked in the beacon node call)
		time.Sleep(40 * time.Millisecond)
		go s.HandleHeadEvent(logger)(&eth2apiv1.Event{Data: &eth2apiv1.HeadEvent{Slot: 63, CurrentDutyDependentRoot: phase0.Root{0xb}}})
		time.Sleep(40 * time.Millisecond)
		cur.SetSlot(64)
		ticker.Send(phase0.Slot(64))
		time.Sleep(20 * time.Millisecond)
		w.mu.Lock()
		w.gate = nil
		w.mu.Unlock()
		close(gate)
		time.Sleep(c16fSettle)

		c16fTick(ticker, cur, 65)
		c16fTick(ticker, cur, 66)
		c16fTick(ticker, cur, 67)
		got := w.dispatchedCopy()
		t.Logf("attempt %d: fetches %v dispatched %v", i, w.fetchesCopy(), got)
		if len(got) != 2 {
			lost++
		}
		cancel()
		require.NoError(t, pool.Wait())
	}
	require.Zero(t, lost, "epoch 2 duty lost in %d of %d attempts", lost, attempts)
}
