#!/bin/bash
# usage: run_finding.sh <package dir relative to the repo> <test file in /verif/findings> [repo]
# Compiles a finding test into the package through a go overlay (nothing is written into the repository).
set -eu
HERE=$(cd "$(dirname "$0")" && pwd)
PKG="$1"; TEST="$HERE/$2"; REPO=$(cd "${3:-/repo}" && pwd)
export GOFLAGS=-mod=mod GOPROXY=off GOSUMDB=off GOTOOLCHAIN=local
TMP=$(mktemp -d "${TMPDIR:-/var/tmp}/finding.XXXXXX")
trap 'rm -rf "$TMP"' EXIT
cat > "$TMP/ov.json" <<JSON
{ "Replace": { "$REPO/$PKG/zz_verif_finding_test.go": "$TEST" } }
JSON
cd "$REPO"
go test -vet=off -count=1 -timeout 300s -overlay "$TMP/ov.json" -run 'TestVerifF' -v "./$PKG/"
