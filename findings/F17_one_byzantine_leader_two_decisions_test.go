package runner_test

// F17 (C01, also C06's last sentence): a decided message for an earlier round moves a not-yet-decided instance BACK to that
// round (Controller.UponDecided), the runner then compacts the decided state and compaction EMPTIES the proposal, prepare and
// round-change containers - the only guard against a second proposal of the same leader in the same round - while the
// instance keeps processing messages. One Byzantine round-1 leader (of 4) gets a correct operator that prepared and committed
// X in round 1 to accept, prepare and commit Y in round 1 as well; a third correct operator then decides Y while the others
// decided X.

import (
	"context"
	"encoding/json"
	"testing"

	specqbft "github.com/bloxapp/ssv-spec/qbft"
	specssv "github.com/bloxapp/ssv-spec/ssv"
	spectypes "github.com/bloxapp/ssv-spec/types"
	"github.com/bloxapp/ssv-spec/types/testingutils"
	"github.com/stretchr/testify/require"
	"go.uber.org/zap"

	qbftstorage "github.com/bloxapp/ssv/ibft/storage"
	"github.com/bloxapp/ssv/logging"
	"github.com/bloxapp/ssv/protocol/v2/qbft"
	"github.com/bloxapp/ssv/protocol/v2/qbft/controller"
	"github.com/bloxapp/ssv/protocol/v2/qbft/roundtimer"
	"github.com/bloxapp/ssv/protocol/v2/ssv/runner"
	"github.com/bloxapp/ssv/protocol/v2/types"
	"github.com/bloxapp/ssv/storage/basedb"
	"github.com/bloxapp/ssv/storage/kv"
)

// Same scenario as TestSideDecidedRegressesRound (package controller) but every honest operator is the real
// sync-committee duty runner (StartNewDuty / ProcessConsensus / QBFTController.OnTimeout): the compaction that
// empties the containers is the runner's own, nothing is mirrored by the test.

type runnerNode struct {
	id   spectypes.OperatorID
	r    runner.Runner
	net  *testingutils.TestingNetwork
	read int
}

func newRunnerNode(t *testing.T, logger *zap.Logger, ks *testingutils.TestKeySet, id spectypes.OperatorID) *runnerNode {
	db, err := kv.NewInMemory(logger, basedb.Options{Ctx: context.TODO()})
	require.NoError(t, err)
	role := spectypes.BNRoleSyncCommittee
	identifier := spectypes.NewMsgID(testingutils.TestingSSVDomainType, testingutils.TestingValidatorPubKey[:], role)
	net := testingutils.NewTestingNetwork()
	km := testingutils.NewTestingKeyManager()
	valCheck := specssv.SyncCommitteeValueCheckF(km, spectypes.BeaconTestNetwork, testingutils.TestingValidatorPubKey[:], testingutils.TestingValidatorIndex)
	cfg := &qbft.Config{
		Signer:                km,
		SigningPK:             ks.Shares[id].GetPublicKey().Serialize(),
		Domain:                testingutils.TestingSSVDomainType,
		ValueCheckF:           valCheck,
		ProposerF:             specqbft.RoundRobinProposer,
		Storage:               qbftstorage.NewStoresFromRoles(db, role).Get(role),
		Network:               net,
		Timer:                 roundtimer.NewTestingTimer(),
		SignatureVerification: true,
	}
	share := testingutils.TestingShare(ks)
	share.OperatorID = id
	share.SharePubKey = ks.Shares[id].GetPublicKey().Serialize()
	ctrl := controller.NewController(identifier[:], share, cfg, false)
	r := runner.NewSyncCommitteeRunner(spectypes.BeaconTestNetwork, share, ctrl, testingutils.NewTestingBeaconNode(), net, km, valCheck, 0)
	return &runnerNode{id: id, r: r, net: net}
}

// sent returns the consensus messages the operator broadcast since the last call.
func (n *runnerNode) sent(t *testing.T) []*specqbft.SignedMessage {
	var out []*specqbft.SignedMessage
	for ; n.read < len(n.net.BroadcastedMsgs); n.read++ {
		if n.net.BroadcastedMsgs[n.read].MsgType != spectypes.SSVConsensusMsgType {
			continue
		}
		m := &specqbft.SignedMessage{}
		require.NoError(t, m.Decode(n.net.BroadcastedMsgs[n.read].Data))
		out = append(out, m)
	}
	return out
}

func (n *runnerNode) deliver(logger *zap.Logger, msg *specqbft.SignedMessage) error {
	byts, err := msg.Encode()
	if err != nil {
		return err
	}
	cp := &specqbft.SignedMessage{}
	if err := cp.Decode(byts); err != nil {
		return err
	}
	return n.r.ProcessConsensus(logger, cp)
}

func pick(t *testing.T, msgs []*specqbft.SignedMessage, typ specqbft.MessageType, minSigners int) *specqbft.SignedMessage {
	var ret *specqbft.SignedMessage
	for _, m := range msgs {
		if m.Message.MsgType == typ && len(m.Signers) >= minSigners && (minSigners > 1 || len(m.Signers) == 1) {
			ret = m
		}
	}
	require.NotNil(t, ret, "no message of type %d broadcast", typ)
	return ret
}

func TestVerifF17_OneByzantineLeaderMakesTwoCorrectOperatorsDecideDifferently(t *testing.T) {
	logger := logging.TestLogger(t)
	ks := testingutils.Testing4SharesSet()
	duty := testingutils.TestingSyncCommitteeDuty
	height := specqbft.Height(duty.Slot)
	identifier := spectypes.NewMsgID(testingutils.TestingSSVDomainType, testingutils.TestingValidatorPubKey[:], spectypes.BNRoleSyncCommittee)

	byz := specqbft.RoundRobinProposer(&specqbft.State{Share: testingutils.TestingShare(ks), Height: height}, specqbft.FirstRound)
	var honest []*runnerNode
	for id := spectypes.OperatorID(1); id <= 4; id++ {
		if id != byz {
			n := newRunnerNode(t, logger, ks, id)
			d := duty
			require.NoError(t, n.r.StartNewDuty(logger, &d))
			require.Empty(t, n.sent(t))
			honest = append(honest, n)
		}
	}
	A, C, D := honest[0], honest[1], honest[2]

	// two valid sync-committee values: vote for block root 0x0202.. (X) or 0x0101.. (Y)
	X := testingutils.TestSyncCommitteeConsensusDataByts
	cdY := &spectypes.ConsensusData{Duty: duty, Version: testingutils.TestSyncCommitteeConsensusData.Version, DataSSZ: testingutils.TestingSyncCommitteeWrongBlockRoot[:]}
	Y, err := cdY.Encode()
	require.NoError(t, err)

	byzMsg := func(typ specqbft.MessageType, value []byte) *specqbft.SignedMessage {
		root, err := specqbft.HashDataRoot(value)
		require.NoError(t, err)
		m := testingutils.SignQBFTMsg(ks.Shares[byz], byz, &specqbft.Message{
			MsgType:    typ,
			Height:     height,
			Round:      specqbft.FirstRound,
			Identifier: identifier[:],
			Root:       root,
		})
		if typ == specqbft.ProposalMsgType {
			m.FullData = value
		}
		return m
	}
	must := func(n *runnerNode, m *specqbft.SignedMessage) {
		require.NoError(t, n.deliver(logger, m), "operator %d", n.id)
	}

	// round 1, value X: A and C prepare and commit, C decides with the commits of A, C and the leader
	must(A, byzMsg(specqbft.ProposalMsgType, X))
	must(C, byzMsg(specqbft.ProposalMsgType, X))
	prepA := pick(t, A.sent(t), specqbft.PrepareMsgType, 1)
	prepC := pick(t, C.sent(t), specqbft.PrepareMsgType, 1)
	for _, n := range []*runnerNode{A, C} {
		must(n, prepA)
		must(n, prepC)
		must(n, byzMsg(specqbft.PrepareMsgType, X))
	}
	commitAX := pick(t, A.sent(t), specqbft.CommitMsgType, 1)
	commitCX := pick(t, C.sent(t), specqbft.CommitMsgType, 1)
	must(C, commitCX)
	must(C, commitAX)
	must(C, byzMsg(specqbft.CommitMsgType, X))
	require.NotNil(t, C.r.GetBaseRunner().State.DecidedValue)
	require.Equal(t, testingutils.TestingSyncCommitteeBlockRoot[:], C.r.GetBaseRunner().State.DecidedValue.DataSSZ)
	decidedC := pick(t, C.sent(t), specqbft.CommitMsgType, 3)

	// A sees only its own commit and its round timer fires
	must(A, commitAX)
	data, err := json.Marshal(types.TimeoutData{Height: height, Round: specqbft.FirstRound})
	require.NoError(t, err)
	require.NoError(t, A.r.GetBaseRunner().QBFTController.OnTimeout(logger, types.EventMsg{Type: types.Timeout, Data: data}))
	instA := A.r.GetBaseRunner().QBFTController.StoredInstances.FindInstance(height)
	require.EqualValues(t, 2, instA.State.Round)
	A.sent(t)

	// C's decided message reaches A: A decides X as well (and signs the sync-committee message for it)
	must(A, decidedC)
	require.NotNil(t, A.r.GetBaseRunner().State.DecidedValue)
	require.Equal(t, testingutils.TestingSyncCommitteeBlockRoot[:], A.r.GetBaseRunner().State.DecidedValue.DataSSZ)
	t.Logf("A after the decided message: round=%d decided=%v proposalAccepted=%v", instA.State.Round, instA.State.Decided, instA.State.ProposalAcceptedForCurrentRound != nil)

	// the leader's second round-1 proposal (Y) goes to A and D
	t.Logf("A on the second round-1 proposal: err=%v", A.deliver(logger, byzMsg(specqbft.ProposalMsgType, Y)))
	must(D, byzMsg(specqbft.ProposalMsgType, Y))
	prepD := pick(t, D.sent(t), specqbft.PrepareMsgType, 1)
	for _, m := range A.sent(t) {
		if m.Message.MsgType == specqbft.PrepareMsgType {
			t.Logf("honest A (prepared and committed X in round 1) now PREPARES round %d root %x", m.Message.Round, m.Message.Root[:4])
			_ = A.deliver(logger, m)
			_ = D.deliver(logger, m)
		}
	}
	_ = A.deliver(logger, prepD)
	_ = A.deliver(logger, byzMsg(specqbft.PrepareMsgType, Y))
	must(D, prepD)
	must(D, byzMsg(specqbft.PrepareMsgType, Y))

	for _, m := range D.sent(t) {
		if m.Message.MsgType == specqbft.CommitMsgType {
			must(D, m)
		}
	}
	must(D, byzMsg(specqbft.CommitMsgType, Y))
	for _, m := range A.sent(t) {
		if m.Message.MsgType == specqbft.CommitMsgType {
			t.Logf("honest A now COMMITS round %d root %x", m.Message.Round, m.Message.Root[:4])
			_ = D.deliver(logger, m)
		}
	}

	if dv := D.r.GetBaseRunner().State.DecidedValue; dv != nil {
		require.Equal(t, C.r.GetBaseRunner().State.DecidedValue.DataSSZ, dv.DataSSZ,
			"runners of C and D decided different sync-committee block roots for the same slot with one Byzantine operator of four")
	}
}
