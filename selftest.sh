#!/bin/bash
# ./selftest.sh [ID...]  -- applies every must-fail patch under selftest/<ID>/*.patch to a scratch copy of /repo
# and demands that the property's check reports a VIOLATION whose obligation matches the patch's "# expect:" line.
set -u
cd "$(dirname "$0")"
ids=("$@"); [ ${#ids[@]} -eq 0 ] && ids=($(ls selftest))
tmp="${TMPDIR:-/var/tmp}/gowp-selftest-$$"
fail=0
for id in "${ids[@]}"; do
  for p in selftest/$id/*.patch; do
    [ -f "$p" ] || continue
    rm -rf "$tmp"; mkdir -p "$tmp"
    rsync -a --exclude .git /repo/ "$tmp/repo/"
    if ! (cd "$tmp/repo" && patch -p1 -s < "/verif/$p"); then echo "SELFTEST-ERROR $p does not apply"; fail=1; continue; fi
    expect=$(grep -m1 '^# expect:' "$p" | sed 's/^# expect: *//')
    out=$(VERIF_REPO="$tmp/repo" ./check "$id" quick --no-evidence 2>&1)
    if echo "$out" | grep -E "obligation .*($expect)" >/dev/null; then echo "SELFTEST-OK   $p  ($(echo "$out" | grep -c '^VIOLATION') violations)"; else echo "SELFTEST-MISS $p (expected obligation /$expect/)"; echo "$out" | tail -5; fail=1; fi
  done
done
rm -rf "$tmp"
exit $fail
