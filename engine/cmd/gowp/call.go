package main

import (
	"fmt"
	"go/constant"
	"go/types"
	"os"
	"regexp"
	"strings"

	"golang.org/x/tools/go/ssa"
)

// effect-free callees (no heap effect, unconstrained result), by prefix of the callee name.
var effectFreePrefixes = []string{
	"go.uber.org/zap", "(*go.uber.org/zap", "(go.uber.org/zap",
	"fmt.", "strconv.", "strings.", "(*strings.", "unicode", "math.", "math/bits.", "sort.SearchInts",
	"time.", "(time.", "(*time.",
	"github.com/pkg/errors.", "errors.",
	"github.com/prometheus/", "(github.com/prometheus/", "(*github.com/prometheus/",
	"github.com/bloxapp/ssv/logging/fields.", "github.com/bloxapp/ssv/logging.",
	"encoding/hex.", "encoding/binary.", "(encoding/binary.", "bytes.", "crypto/sha256.", "encoding/base64.", "(*encoding/base64.",
	"(context.Context).", "context.", "(go.uber.org/zap/zapcore", "(*go.uber.org/zap/zapcore",
	"(*sync.Mutex).", "(*sync.RWMutex).", "(*sync.Once).", "(*sync/atomic.", "sync/atomic.",
	"(error).Error", "(fmt.Stringer).String", "reflect.TypeOf", "(reflect.Type).",
	"github.com/bloxapp/ssv/utils/format.", "golang.org/x/exp/slices.Contains", "golang.org/x/exp/maps.Keys",
	"(*github.com/bloxapp/ssv/operator/duties.Scheduler).loggerWithSlot", "os.Getenv", "runtime.",
	"(*github.com/herumi/bls-eth-go-binary/bls.", "github.com/herumi/bls-eth-go-binary/bls.",
	"encoding/json.Marshal",
	"(github.com/bloxapp/ssv/monitoring/metricsreporter.MetricsReporter).", "(*github.com/bloxapp/ssv/monitoring/metricsreporter.",
	"github.com/ethereum/go-ethereum/common.", "(github.com/ethereum/go-ethereum/common.", "(*math/big.Int).", "math/big.",
}

var debugOn = os.Getenv("GOWP_DEBUG") != ""

func isEffectFree(name string) bool {
	for _, p := range effectFreePrefixes {
		if strings.HasPrefix(name, p) {
			return true
		}
	}
	return false
}

func sigOf(c *ssa.CallCommon) *types.Signature {
	return c.Signature()
}

func resultType(sig *types.Signature) types.Type {
	switch sig.Results().Len() {
	case 0:
		return types.NewTuple()
	case 1:
		return sig.Results().At(0).Type()
	}
	return sig.Results()
}

// call encodes a call; returns the result value (leaves of the result type / tuple) and the new heap.
func (fr *frame) call(b *ssa.BasicBlock, site ssa.Instruction, c *ssa.CallCommon, reach Term, h Heap, val *ssa.Call) (Val, Heap) {
	x := fr.x
	sig := sigOf(c)
	rt := resultType(sig)
	var args []Val
	var atypes []types.Type
	if c.IsInvoke() {
		args = append(args, fr.get(c.Value))
		atypes = append(atypes, c.Value.Type())
		if x.safety {
			fr.safety(b, "nil-iface-call", site.Pos(), reach, not(eq(args[0].ts[0], "0")))
		}
	}
	for _, a := range c.Args {
		args = append(args, fr.get(a))
		atypes = append(atypes, a.Type())
	}
	name := calleeName(c)
	if x.con != nil && fr.depth == 0 {
		for _, nn := range x.con.NonNil {
			if name != "" && (name == nn || shortCallee(name) == nn) {
				res, nh := fr.callCounted(b, site, c, name, sig, rt, args, atypes, reach, h)
				if len(res.ts) > 0 {
					x.sc.assertC(implies(reach, not(eq(res.ts[0], "0"))), "assumed: "+nn+" never returns nil")
					x.assumed["nonnil: "+nn+" never returns nil"] = true
				}
				return res, nh
			}
		}
	}
	return fr.callCounted(b, site, c, name, sig, rt, args, atypes, reach, h)
}

// callCounted: ghost counters around the call proper.
func (fr *frame) callCounted(b *ssa.BasicBlock, site ssa.Instruction, c *ssa.CallCommon, name string, sig *types.Signature, rt types.Type, args []Val, atypes []types.Type, reach Term, h Heap) (Val, Heap) {
	x := fr.x
	// only_calls: a structural frame on the function's own call sites
	if x.con != nil && len(x.con.OnlyCalls) > 0 && fr.depth == 0 && name != "" && !strings.HasPrefix(name, "builtin.") {
		allowed := false
		for _, p := range x.con.OnlyCalls {
			if name == p || shortCallee(name) == p {
				allowed = true
			}
		}
		if !allowed {
			x.addObl("only_calls", fmt.Sprintf("%s.only_calls[%s]", shortFn(x.top), shortCallee(name)), "the function calls "+name+", which its only_calls clause does not list", site.Pos(), reach, "false")
		}
	}
	// snap[COUNTER:name]: ghost record of a fact in the state right before the watched call
	if x.con != nil && len(x.con.Snaps) > 0 && x.topFr != nil {
		for _, cn := range fr.countMatches(c, name) {
			for _, sn := range x.con.Snaps {
				if !strings.HasPrefix(sn.Label, cn+":") {
					continue
				}
				ci := x.eng.clauses[sn]
				env := x.newSpecEnv(ci, x.topFr.paramVals(ci.params, nil), h, x.topFr.entry)
				key := "$snap:" + sn.Label[len(cn)+1:]
				x.regKey(key, "Int")
				h = h.set(key, app("b2i", x.evalBool(env, clauseExpr(ci))))
			}
		}
	}
	h = fr.countCall(c, name, args, atypes, h)
	if matched := fr.countMatches(c, name); len(matched) > 0 {
		res, nh := fr.call2(b, site, c, name, sig, rt, args, atypes, reach, h)
		for _, cn := range matched {
			x.regKey("$res:"+cn, "Int")
			if x.resTypes == nil {
				x.resTypes = map[string]types.Type{}
			}
			if tp, isT := rt.(*types.Tuple); isT && tp.Len() > 0 {
				x.resTypes[cn] = tp.At(0).Type()
			} else if rt != nil {
				x.resTypes[cn] = rt
			}
			if len(res.ts) > 0 {
				first := asInt(res.ts[0], leaves(rt)[0].Sort)
				nh = nh.set("$res:"+cn, first)
				// nthres(name, k): the result of the k-th counted call (k = 1..3)
				x.regKey("$cnt:"+cn, "Int")
				for k := 1; k <= 3; k++ {
					key := fmt.Sprintf("$res:%s@%d", cn, k)
					x.regKey(key, "Int")
					nh = nh.set(key, ite(eq(x.hget(nh, "$cnt:"+cn), num(int64(k))), first, x.hget(nh, key)))
				}
			}
			// further result leaves: lastresn(name, k)
			for k := 1; k < len(res.ts) && k < 12; k++ {
				key := fmt.Sprintf("$res:%s:%d", cn, k)
				x.regKey(key, "Int")
				nh = nh.set(key, asInt(res.ts[k], leaves(rt)[k].Sort))
			}
			// assume[cn:label]: a stated assumption about this (uncontracted) callee, over the top function's parameters,
			// in the state right after the call
			if x.con != nil && x.topFr != nil {
				for _, a := range x.con.Assumes {
					if !strings.HasPrefix(a.Label, cn+":") {
						continue
					}
					if _, contracted := x.eng.contracts[name]; contracted {
						x.note("assume[" + a.Label + "] ignored: " + name + " has a contract")
						continue
					}
					ci := x.eng.clauses[a]
					env := x.newSpecEnv(ci, x.topFr.paramVals(ci.params, nil), nh, x.topFr.entry)
					x.sc.assertC(implies(reach, x.evalBool(env, clauseExpr(ci))), "assumed after "+name+": "+a.Text)
					x.assumed[shortFn(x.top)+": assumed after every call of "+name+" ("+a.Label+"): "+a.Text] = true
				}
			}
		}
		return res, nh
	}
	return fr.call2(b, site, c, name, sig, rt, args, atypes, reach, h)
}

func asInt(t Term, s Sort) Term {
	if s == SBool {
		return app("b2i", t)
	}
	if s != SInt {
		return "0"
	}
	return t
}

// countMatches: names of the ghost counters of the top contract that watch this callee.
func (fr *frame) countMatches(c *ssa.CallCommon, name string) []string {
	x := fr.x
	if x.con == nil {
		return nil
	}
	var out []string
	for _, cs := range x.con.Counts {
		pat := cs[1]
		ok := name != "" && (name == pat || shortCallee(name) == pat)
		if !ok && strings.HasPrefix(pat, "type:") && !c.IsInvoke() && c.StaticCallee() == nil {
			if nt, isNamed := c.Value.Type().(*types.Named); isNamed && nt.Obj().Name() == pat[5:] {
				ok = true
			}
		}
		if !ok && strings.HasPrefix(pat, "field:") && !c.IsInvoke() {
			if ld, isLoad := c.Value.(*ssa.UnOp); isLoad {
				if fa, isFA := ld.X.(*ssa.FieldAddr); isFA {
					st := derefType(fa.X.Type()).Underlying().(*types.Struct)
					ok = st.Field(fa.Field).Name() == pat[6:]
				}
			}
		}
		if !ok && strings.HasPrefix(pat, "param:") && !c.IsInvoke() {
			if p, isP := c.Value.(*ssa.Parameter); isP && p.Name() == pat[6:] {
				ok = true
			}
			if p, isF := c.Value.(*ssa.FreeVar); isF && p.Name() == pat[6:] {
				ok = true
			}
		}
		if ok {
			out = append(out, cs[0])
		}
	}
	return out
}

// chanVarName: source name of the channel operand (parameter, captured variable, or a load of a captured variable).
func chanVarName(v ssa.Value) string {
	switch v := v.(type) {
	case *ssa.Parameter:
		return v.Name()
	case *ssa.FreeVar:
		return v.Name()
	case *ssa.Phi:
		return v.Comment // loop-carried local channel variable
	case *ssa.UnOp:
		if fv, ok := v.X.(*ssa.FreeVar); ok {
			return fv.Name()
		}
		if fa, ok := v.X.(*ssa.FieldAddr); ok {
			st := derefType(fa.X.Type()).Underlying().(*types.Struct)
			return st.Field(fa.Field).Name()
		}
	}
	return ""
}

// countSend: ghost counters with pattern send:<name> watch sends on the channel variable <name>; the first leaf
// of the sent value is recorded as argument 0.
func (fr *frame) countSend(in *ssa.Send, h Heap) Heap {
	x := fr.x
	if x.con == nil {
		return h
	}
	name := chanVarName(in.Chan)
	// ordinal of this send among the function's sends on the same channel variable, in source order
	ord := 0
	for _, blk := range in.Parent().Blocks {
		for _, other := range blk.Instrs {
			if s, ok := other.(*ssa.Send); ok && chanVarName(s.Chan) == name && s.Pos() <= in.Pos() {
				ord++
			}
		}
	}
	for _, cs := range x.con.Counts {
		if name == "" || (cs[1] != "send:"+name && cs[1] != fmt.Sprintf("send:%s#%d", name, ord)) {
			continue
		}
		if x.countHits == nil {
			x.countHits = map[string]int{}
		}
		x.countHits[cs[0]]++
		k := "$cnt:" + cs[0]
		x.regKey(k, "Int")
		h = h.set(k, plus(x.hget(h, k), "1"))
		v := fr.get(in.X)
		ls := leaves(in.X.Type())
		for i := 0; i < len(v.ts) && i < 4; i++ {
			ak := fmt.Sprintf("$arg:%s:%d", cs[0], i)
			x.regKey(ak, "Int")
			h = h.set(ak, asInt(v.ts[i], ls[i].Sort))
		}
	}
	return h
}

// storeFieldName: "Type.field" when the address is a field of a named struct type, else "".
func storeFieldName(addr ssa.Value) string {
	fa, ok := addr.(*ssa.FieldAddr)
	if !ok {
		return ""
	}
	pt, ok := fa.X.Type().Underlying().(*types.Pointer)
	if !ok {
		return ""
	}
	st, ok := pt.Elem().Underlying().(*types.Struct)
	if !ok {
		return ""
	}
	tn := ""
	switch t := pt.Elem().(type) {
	case *types.Named:
		tn = t.Obj().Name()
	case *types.Alias:
		tn = t.Obj().Name()
	}
	if tn == "" {
		return ""
	}
	return tn + "." + st.Field(fa.Field).Name()
}

// countStore: ghost counters with pattern store:<Type>.<field> (optionally #k: only the k-th such store of the
// function in source order) watch the function's own stores to that field; argument 0 is the object written,
// argument 1 the first leaf of the stored value.
func (fr *frame) countStore(in *ssa.Store, h Heap) Heap {
	x := fr.x
	if x.con == nil || len(x.con.Counts) == 0 {
		return h
	}
	name := storeFieldName(in.Addr)
	if name == "" {
		return h
	}
	ord := 0
	for _, blk := range in.Parent().Blocks {
		for _, other := range blk.Instrs {
			if s, ok := other.(*ssa.Store); ok && storeFieldName(s.Addr) == name && s.Pos() <= in.Pos() {
				ord++
			}
		}
	}
	for _, cs := range x.con.Counts {
		// the ordinal form names the k-th such store of the contracted function's own body (not of an inlined callee)
		if cs[1] != "store:"+name && (fr.depth != 0 || cs[1] != fmt.Sprintf("store:%s#%d", name, ord)) {
			continue
		}
		if x.countHits == nil {
			x.countHits = map[string]int{}
		}
		x.countHits[cs[0]]++
		if strings.HasPrefix(cs[0], "!forbid:") {
			continue
		}
		k := "$cnt:" + cs[0]
		x.regKey(k, "Int")
		h = h.set(k, plus(x.hget(h, k), "1"))
		base := fr.get(in.Addr.(*ssa.FieldAddr).X)
		if len(base.ts) > 0 && base.fp == nil {
			ak := fmt.Sprintf("$arg:%s:0", cs[0])
			x.regKey(ak, "Int")
			h = h.set(ak, base.ts[0])
		}
		v := fr.get(in.Val)
		if ls := leaves(in.Val.Type()); len(v.ts) > 0 && len(ls) > 0 && v.fp == nil {
			ak := fmt.Sprintf("$arg:%s:1", cs[0])
			x.regKey(ak, "Int")
			h = h.set(ak, asInt(v.ts[0], ls[0].Sort))
		}
	}
	return h
}

// countCall bumps the ghost counters watching this callee and records the first leaf of each argument.
func (fr *frame) countCall(c *ssa.CallCommon, name string, args []Val, atypes []types.Type, h Heap) Heap {
	x := fr.x
	for _, cn := range fr.countMatches(c, name) {
		if x.countHits == nil {
			x.countHits = map[string]int{}
		}
		x.countHits[cn]++
		k := "$cnt:" + cn
		x.regKey(k, "Int")
		h = h.set(k, plus(x.hget(h, k), "1"))
		for i, a := range args {
			ak := fmt.Sprintf("$arg:%s:%d", cn, i)
			x.regKey(ak, "Int")
			if x.resTypes == nil {
				x.resTypes = map[string]types.Type{}
			}
			x.resTypes[ak] = atypes[i]
			if len(a.ts) > 0 && a.fp == nil {
				if _, isIface := atypes[i].Underlying().(*types.Interface); isIface && len(a.ts) == 2 {
					h = h.set(ak, a.ts[1]) // interface arguments: the payload (boxed value / pointer), not the type tag
				} else {
					h = h.set(ak, asInt(a.ts[0], leaves(atypes[i])[0].Sort))
					// further leaves of the argument (slice offset / length / capacity ...): lastargn(name, i, k)
					ls := leaves(atypes[i])
					for k := 1; k < len(a.ts) && k < len(ls) && k < 4; k++ {
						akk := fmt.Sprintf("%s:%d", ak, k)
						x.regKey(akk, "Int")
						h = h.set(akk, asInt(a.ts[k], ls[k].Sort))
					}
				}
			}
		}
	}
	return h
}

func (fr *frame) call2(b *ssa.BasicBlock, site ssa.Instruction, c *ssa.CallCommon, name string, sig *types.Signature, rt types.Type, args []Val, atypes []types.Type, reach Term, h Heap) (Val, Heap) {
	x := fr.x
	// builtins
	if bi, ok := c.Value.(*ssa.Builtin); ok {
		return fr.builtin(b, site, bi, c, args, atypes, rt, reach, h)
	}
	// special library functions
	if res, nh, ok := fr.special(b, site, name, c, args, atypes, rt, reach, h); ok {
		return res, nh
	}
	// contracts
	// (a contract under verification that declares a callee pure keeps that abstraction - an assumption it lists - even
	// when the callee has a non-pure contract of its own: the callee's clauses are then checked on the callee only)
	callerAbstracts := fr.depth == 0 && (fr.pure[name] || fr.pure[shortCallee(name)])
	if con, ok := x.eng.contracts[name]; ok && !con.Inline && !(callerAbstracts && !con.Pure) {
		return fr.applyContract(b, site, con, name, args, atypes, sig, rt, reach, h)
	}
	// closures / inlinable callees
	var target *ssa.Function
	var bindings []Val
	if !c.IsInvoke() {
		if f := c.StaticCallee(); f != nil {
			target = f
			if mc, ok := c.Value.(*ssa.MakeClosure); ok {
				bindings = fr.get(mc).clo.bindings
			}
		} else {
			fv := fr.get(c.Value)
			if fv.clo != nil {
				target, bindings = fv.clo.fn, fv.clo.bindings
			}
		}
	}
	if target != nil {
		con := x.eng.contracts[name]
		if con == nil && name == "" && len(bindings) == 0 {
			// a function value known to be a declared function (passed as an argument and called by the inlined
			// callee): its own contract applies
			if tc, ok := x.eng.contracts[target.String()]; ok {
				if !tc.Inline {
					return fr.applyContract(b, site, tc, target.String(), args, atypes, sig, rt, reach, h)
				}
				con = tc
			}
		}
		inl := con != nil && con.Inline
		if target.Parent() != nil && target.Blocks != nil { // anonymous function defined in an enclosing function
			inl = true
		}
		if inl && target.Blocks != nil && fr.depth < 4 {
			return fr.inline(target, con, args, bindings, rt, reach, h)
		}
	}
	// pure: parameters / interface methods / functions declared pure
	pureKey := ""
	if !c.IsInvoke() && c.StaticCallee() == nil {
		if p, ok := c.Value.(*ssa.Parameter); ok && fr.pure[p.Name()] {
			pureKey = "param:" + typeKey(p.Type())
			args = append([]Val{fr.get(c.Value)}, args...)
			atypes = append([]types.Type{c.Value.Type()}, atypes...)
		} else if nt, isNamed := c.Value.Type().(*types.Named); isNamed && fr.pure["type:"+nt.Obj().Name()] {
			// dynamic call of a function value whose (named) type is declared pure in the contract
			pureKey = "param:" + typeKey(c.Value.Type())
			args = append([]Val{fr.get(c.Value)}, args...)
			atypes = append([]types.Type{c.Value.Type()}, atypes...)
		} else if fvv, ok := c.Value.(*ssa.FreeVar); ok && fr.pure[fvv.Name()] {
			pureKey = "param:" + typeKey(fvv.Type())
			args = append([]Val{fr.get(c.Value)}, args...)
			atypes = append([]types.Type{c.Value.Type()}, atypes...)
		}
	}
	if x.eng.pureFuncs[name] || fr.pure[name] || fr.pure[shortCallee(name)] || (name != "" && x.eng.isRigid(name)) {
		pureKey = name
	}
	if pureKey != "" {
		res := x.pureCall(pureKey, args, atypes, rt, h)
		x.sc.assert(implies(reach, x.typeFacts(rt, res, h)))
		return res, h
	}
	res := x.freshVal("call", rt)
	if name != "" && isEffectFree(name) {
		x.effectFree[name] = true
		x.sc.assert(implies(reach, x.typeFacts(rt, res, h)))
		return res, h
	}
	// a small loop-free function of the repository without a contract: its body is encoded in place (more precise
	// than a havoc, and a helper extracted from a function under contract does not break that function's proof)
	if autoInline && target != nil && autoInlinable(target) && fr.leafLike(target) && fr.depth < 2 && target != fr.fn && target != x.top {
		x.autoInlined[name] = true
		return fr.inline(target, nil, args, bindings, rt, reach, h)
	}
	// unknown callee: havoc everything
	if name == "" {
		name = "dynamic call of " + c.Value.Type().String()
	}
	x.havocCalls[name] = true
	if debugOn {
		fmt.Fprintf(os.Stderr, "DEBUG havoc: %s calls %s at %s\n", fr.fn, name, x.eng.fset.Position(site.Pos()))
	}
	nh := x.havocAll(h, reach)
	x.sc.assert(implies(reach, x.typeFacts(rt, res, nh)))
	return res, nh
}

// leafLike: encoding the body in place adds no obligations and no ghost events - it calls no function under contract
// (whose preconditions would become obligations here) and nothing a counter of the top contract watches.
func (fr *frame) leafLike(f *ssa.Function) bool {
	for _, b := range f.Blocks {
		for _, in := range b.Instrs {
			switch in := in.(type) {
			case *ssa.MakeClosure, *ssa.Send:
				return false
			case ssa.CallInstruction:
				c := in.Common()
				n := calleeName(c)
				if _, ok := fr.x.eng.contracts[n]; ok {
					return false
				}
				if len(fr.countMatches(c, n)) > 0 {
					return false
				}
			}
		}
	}
	return true
}

var autoInline = os.Getenv("GOWP_AUTOINLINE") != "0"

// autoInlinable: a function of the repository with a body, without loops, of moderate size.
func autoInlinable(f *ssa.Function) bool {
	if f.Blocks == nil || f.Pkg == nil || !strings.HasPrefix(f.Pkg.Pkg.Path(), "github.com/bloxapp/ssv/") || f.Recover != nil {
		return false
	}
	n := 0
	for _, b := range f.Blocks {
		n += len(b.Instrs)
		for _, s := range b.Succs {
			if s.Index <= b.Index && s.Dominates(b) {
				return false // back edge: a loop
			}
		}
		for _, in := range b.Instrs {
			switch in.(type) {
			case *ssa.Go, *ssa.Defer, *ssa.Select, *ssa.Panic:
				return false
			}
		}
	}
	return n <= 60
}

func shortCallee(name string) string {
	// (pkg/path.T).M -> T.M ; pkg/path.F -> F
	s := name
	if i := strings.LastIndex(s, "/"); i >= 0 {
		s = s[i+1:]
	}
	s = strings.NewReplacer("(", "", ")", "", "*", "").Replace(s)
	if i := strings.Index(s, "."); i >= 0 {
		s = s[i+1:]
	}
	return s
}

// pureCall: the result is an uninterpreted function of the argument leaves and the heap epoch.
func (x *Enc) pureCall(key string, args []Val, atypes []types.Type, rt types.Type, h Heap) Val {
	var ts []Term
	var sorts []string
	for i, a := range args {
		if a.fp != nil {
			x.note("field pointer passed to pure call " + key)
			ts = append(ts, x.freshConst("fparg", "Int"))
			sorts = append(sorts, "Int")
			continue
		}
		ls := leaves(atypes[i])
		// array values are compared by content (valEq): a pure function of an array value is a function of its
		// content id, so that equal arrays give equal results
		if at, isArr := atypes[i].Underlying().(*types.Array); isArr && len(a.ts) == 1 && nLeaves(at.Elem()) == 1 && leaves(at.Elem())[0].Sort == SInt {
			ts = append(ts, app("bytesval", a.ts[0], "0", num(at.Len())))
			sorts = append(sorts, "Int")
			continue
		}
		for j, t := range a.ts {
			ts = append(ts, t)
			sorts = append(sorts, ls[j].Sort.String())
		}
	}
	if !x.eng.isRigid(key) {
		x.regKey(keyEpoch, "Int")
		ts = append(ts, x.hget(h, keyEpoch))
		sorts = append(sorts, "Int")
	}
	ls := leaves(rt)
	out := Val{ts: make([]Term, len(ls))}
	for i, l := range ls {
		fn := sym(fmt.Sprintf("pure!%s!%d", cleanKey(key), i))
		want := fmt.Sprintf("(declare-fun %s (%s) %s)", fn, strings.Join(sorts, " "), l.Sort.String())
		if have, declared := x.sc.decls[fn]; declared && have != want {
			// the same function value / callee is applied with another argument shape elsewhere (e.g. a clause written
			// for an older signature): a different uninterpreted function, never an ill-sorted script
			fn = sym(fmt.Sprintf("pure!%s!%d!a%d", cleanKey(key), i, len(sorts)))
		}
		x.sc.declFun(fn, sorts, l.Sort.String())
		out.ts[i] = app(fn, ts...)
	}
	return out
}

// specCall: mathematical spec function (no heap dependence).
func (x *Enc) specCall(key string, args []Val, atypes []types.Type, rt types.Type) Val {
	var ts []Term
	var sorts []string
	for i, a := range args {
		ls := leaves(atypes[i])
		for j, t := range a.ts {
			ts = append(ts, t)
			sorts = append(sorts, ls[j].Sort.String())
		}
	}
	ls := leaves(rt)
	out := Val{ts: make([]Term, len(ls))}
	for i, l := range ls {
		fn := sym(fmt.Sprintf("spec!%s!%d", cleanKey(key), i))
		x.sc.declFun(fn, sorts, l.Sort.String())
		out.ts[i] = app(fn, ts...)
	}
	return out
}

// storedKeysOf: registered heap keys that the body of the function under the given contract stores to directly
// (field stores, element stores, stores through pointers, map updates), by key prefix.
func (x *Enc) storedKeysOf(con *Contract) map[string]bool {
	fn := x.eng.findFunction(con)
	if fn == nil {
		return nil
	}
	var prefixes []string
	addType := func(t types.Type) {
		if _, ok := t.Underlying().(*types.Struct); ok {
			prefixes = append(prefixes, "F:"+typeKey(t)+":")
		}
	}
	var visit func(f *ssa.Function)
	visit = func(f *ssa.Function) {
		for _, blk := range f.Blocks {
			for _, in := range blk.Instrs {
				switch in := in.(type) {
				case *ssa.Store:
					vt := derefType(in.Addr.Type())
					switch a := in.Addr.(type) {
					case *ssa.FieldAddr:
						st := derefType(a.X.Type())
						u := st.Underlying().(*types.Struct)
						prefixes = append(prefixes, fieldKey(st, "."+u.Field(a.Field).Name()))
						addType(vt)
					case *ssa.IndexAddr:
						prefixes = append(prefixes, elemKeyOf(vt, ""))
						addType(vt)
					case *ssa.Alloc:
						// a local of the callee
					default:
						prefixes = append(prefixes, ptrKey(vt, ""))
						addType(vt)
					}
				case *ssa.MapUpdate:
					prefixes = append(prefixes, "M:"+typeKey(in.Map.Type())+":")
				}
			}
		}
		for _, af := range f.AnonFuncs {
			visit(af)
		}
	}
	visit(fn)
	out := map[string]bool{}
	for k := range x.keys {
		for _, p := range prefixes {
			if strings.HasPrefix(k, p) {
				out[k] = true
			}
		}
	}
	return out
}

func (fr *frame) applyContract(b *ssa.BasicBlock, site ssa.Instruction, con *Contract, name string, args []Val, atypes []types.Type, sig *types.Signature, rt types.Type, reach Term, h Heap) (Val, Heap) {
	x := fr.x
	if con.Trusted {
		x.assumed["assumed contract of "+name] = true
	}
	if !con.Extern && !con.Trusted && !con.Pure {
		x.usedCons[con.CalleeKey] = con
	}
	// contract of a method of a generic type applied at an instantiation: the contract's clauses are typed with the
	// type parameters; heap keys derived from those types must be the caller's (instantiated) ones
	if ci, ok := site.(ssa.CallInstruction); ok {
		if f := ci.Common().StaticCallee(); f != nil && f.Origin() != nil && len(f.TypeArgs()) > 0 {
			var tps *types.TypeParamList
			if osig := f.Origin().Signature; osig.RecvTypeParams().Len() > 0 {
				tps = osig.RecvTypeParams()
			} else {
				tps = osig.TypeParams()
			}
			if tps != nil && tps.Len() == len(f.TypeArgs()) {
				saved := typeSubst
				for i := 0; i < tps.Len(); i++ {
					typeSubst = append(typeSubst, typeSubstEntry{
						re: regexp.MustCompile(`(^|[^\w./])` + regexp.QuoteMeta(tps.At(i).Obj().Name()) + `\b`),
						to: "${1}" + typeKey(f.TypeArgs()[i]),
					})
				}
				defer func() { typeSubst = saved }()
			}
		}
	}
	// environment: synthetic param names
	env := map[string]Val{}
	nargs := len(args)
	for i := 0; i < nargs && i < len(con.SynParams); i++ {
		env[con.SynParams[i]] = args[i]
	}
	// requires at the call site
	for i, c := range con.Requires {
		ci := x.eng.clauses[c]
		se := x.newSpecEnv(ci, env, h, h)
		goal := x.evalBool(se, clauseExpr(ci))
		label := c.Label
		if label == "" {
			label = fmt.Sprintf("req%d", i)
		}
		x.addObl("requires", fmt.Sprintf("%s.call.%s.%s", shortFn(fr.fn), shortCallee(name), label), c.Text, site.Pos(), reach, goal)
		x.sc.assert(implies(reach, goal))
	}
	// frame
	nh := h
	modKeys, modLocs, all := x.modifiesOf(con, env, h)
	if all {
		// the caller's havoc_preserves assumption speaks about callees that are not under contract; a contracted
		// callee that writes such a key in its own body is not covered by it
		x.noPreserve = x.storedKeysOf(con)
		nh = x.havocAll(h, reach)
		x.noPreserve = nil
	} else if len(modKeys) > 0 || len(modLocs) > 0 {
		for _, k := range sortedKeys(modKeys) {
			nh = nh.set(k, x.freshConst("Hcall!"+cleanKey(k), x.keys[k]))
		}
		for _, k := range sortedKeys(modLocs) {
			if modKeys[k] {
				continue
			}
			cur := x.hget(nh, k)
			for _, loc := range modLocs[k] {
				var fresh Term
				if strings.HasPrefix(x.keys[k], "(Array Int (Array") {
					fresh = x.freshConst("Hloc!"+cleanKey(k), strings.TrimSuffix(strings.TrimPrefix(x.keys[k], "(Array Int "), ")"))
				} else {
					fresh = x.freshConst("Hloc!"+cleanKey(k), strings.TrimSuffix(strings.TrimPrefix(x.keys[k], "(Array Int "), ")"))
				}
				cur = app("store", cur, loc, fresh)
			}
			nh = x.hset(nh, k, cur)
		}
		nh = x.bumpEpoch(nh)
		// the callee may allocate
		na := x.freshConst("alloc", "Int")
		x.sc.assert(app(">=", na, x.hget(h, keyAlloc)))
		nh = nh.set(keyAlloc, na)
	} else if !con.Pure {
		// no heap effects on existing objects, but may allocate
		na := x.freshConst("alloc", "Int")
		x.sc.assert(app(">=", na, x.hget(h, keyAlloc)))
		nh = nh.set(keyAlloc, na)
	}
	var res Val
	if con.Pure {
		res = x.pureCall(name, args, atypes, rt, h)
	} else {
		res = x.freshVal("res_"+shortCallee(name), rt)
	}
	x.sc.assert(implies(reach, x.typeFacts(rt, res, nh)))
	// results into env
	if tp, ok := rt.(*types.Tuple); ok {
		for i := 0; i < tp.Len(); i++ {
			lo, hi := tupleRange(tp, i)
			if nargs+i < len(con.SynParams) {
				env[con.SynParams[nargs+i]] = Val{ts: res.ts[lo:hi]}
			}
		}
	} else if nargs < len(con.SynParams) {
		env[con.SynParams[nargs]] = res
	}
	var givens []Term
	for _, c := range con.Givens {
		ci := x.eng.clauses[c]
		se := x.newSpecEnv(ci, env, h, h)
		givens = append(givens, x.evalBool(se, clauseExpr(ci)))
	}
	ghost := map[string]Term{}
	for _, c := range con.Ensures {
		ci := x.eng.clauses[c]
		se := x.newSpecEnv(ci, env, nh, h)
		se.calleeGhost = ghost
		x.sc.assertC(implies(and(reach, and(givens...)), x.evalBool(se, clauseExpr(ci))), "callee ensures "+shortCallee(name)+": "+c.Text)
	}
	return res, nh
}

// inline encodes the callee body in place.
func (fr *frame) inline(fn *ssa.Function, con *Contract, args []Val, bindings []Val, rt types.Type, reach Term, h Heap) (Val, Heap) {
	x := fr.x
	x.nfresh++
	if con == nil && fn.Parent() != nil && nestedIn(fn, x.top) {
		con = x.con // loops of nested anonymous functions take their invariants from the enclosing contract
	}
	sub := x.newFrame(fn, fmt.Sprintf("%s.i%d", fr.prefix, x.nfresh), fr.depth+1, con)
	for k := range fr.pure {
		sub.pure[k] = true
	}
	if fn.Parent() != nil {
		for k, v := range fr.params {
			sub.params[k] = v
		}
	}
	for i, p := range fn.Params {
		if i < len(args) {
			sub.vals[p] = args[i]
			sub.params[p.Name()] = args[i]
		}
	}
	for i, f := range fn.FreeVars {
		if i < len(bindings) {
			sub.vals[f] = bindings[i]
			// captured variables are pointers to the enclosing function's allocs; purity flags follow names
		}
	}
	sub.entry = h
	sub.encode(reach, h)
	if len(sub.rets) == 0 {
		fr.narrow = "false"
		return x.freshVal("noret", rt), h
	}
	if len(sub.headers) > 0 {
		var rr []Term
		for _, r := range sub.rets {
			rr = append(rr, r.reach)
		}
		fr.narrow = or(rr...)
	}
	if len(sub.rets) == 1 {
		r := sub.rets[0]
		var ts []Term
		for _, v := range r.vals {
			ts = append(ts, v.ts...)
		}
		return Val{ts: ts}, r.heap
	}
	res := x.freshVal("inl", rt)
	var edges []Term
	var hs []Heap
	for _, r := range sub.rets {
		var ts []Term
		for _, v := range r.vals {
			ts = append(ts, v.ts...)
		}
		for i := range ts {
			x.sc.assert(implies(r.reach, eq(res.ts[i], ts[i])))
		}
		edges = append(edges, r.reach)
		hs = append(hs, r.heap)
	}
	saved := x.curPrefix
	x.curPrefix = sub.prefix
	nh := x.mergeHeaps(sub, fn.Blocks[0], edges, hs)
	x.curPrefix = saved
	return res, nh
}

func (fr *frame) builtin(b *ssa.BasicBlock, site ssa.Instruction, bi *ssa.Builtin, c *ssa.CallCommon, args []Val, atypes []types.Type, rt types.Type, reach Term, h Heap) (Val, Heap) {
	x := fr.x
	switch bi.Name() {
	case "len":
		switch t := atypes[0].Underlying().(type) {
		case *types.Slice:
			return Val{ts: []Term{args[0].ts[2]}}, h
		case *types.Basic:
			return Val{ts: []Term{app("strlen", args[0].ts[0])}}, h
		case *types.Map:
			if x.regMap(t) {
				_, _, card := mapKeys(t)
				r := ite(eq(args[0].ts[0], "0"), "0", app("select", x.hget(h, card), args[0].ts[0]))
				x.sc.assert(app(">=", r, "0"))
				return Val{ts: []Term{r}}, h
			}
		case *types.Array:
			return Val{ts: []Term{num(t.Len())}}, h
		case *types.Pointer:
			if at, ok := t.Elem().Underlying().(*types.Array); ok {
				return Val{ts: []Term{num(at.Len())}}, h
			}
		case *types.Chan:
			r := x.freshConst("chanlen", "Int")
			x.sc.assert(app(">=", r, "0"))
			if sz := types.SizesFor("gc", "amd64").Sizeof(t.Elem()); sz > 0 {
				// makechan refuses a buffer above maxAlloc (2^48 bytes on 64-bit platforms)
				x.sc.assert(app("<=", r, "281474976710656"))
			}
			return Val{ts: []Term{r}}, h
		}
		r := x.freshConst("len", "Int")
		x.sc.assert(app(">=", r, "0"))
		return Val{ts: []Term{r}}, h
	case "cap":
		if _, ok := atypes[0].Underlying().(*types.Slice); ok {
			return Val{ts: []Term{args[0].ts[3]}}, h
		}
		r := x.freshConst("cap", "Int")
		x.sc.assert(app(">=", r, "0"))
		return Val{ts: []Term{r}}, h
	case "append":
		return fr.appendBuiltin(args, atypes, rt, reach, h)
	case "copy":
		return fr.copyBuiltin(args, atypes, reach, h)
	case "delete":
		mt := atypes[0].Underlying().(*types.Map)
		if !x.regMap(mt) {
			return Val{}, x.bumpEpoch(h)
		}
		m := args[0].ts[0]
		k := x.mapKeyTerm(mt.Key(), args[1])
		has, _, card := mapKeys(mt)
		hasM := app("select", x.hget(h, has), m)
		oc := app("select", x.hget(h, card), m)
		nh := x.hset(h, card, ite(eq(m, "0"), x.hget(h, card), app("store", x.hget(h, card), m, ite(app("select", hasM, k), app("-", oc, "1"), oc))))
		nh = x.hset(nh, has, ite(eq(m, "0"), x.hget(h, has), app("store", x.hget(h, has), m, app("store", hasM, k, "false"))))
		return Val{}, x.bumpEpoch(nh)
	case "min", "max":
		op := "<="
		if bi.Name() == "max" {
			op = ">="
		}
		cur := args[0].ts[0]
		for _, a := range args[1:] {
			cur = ite(app(op, cur, a.ts[0]), cur, a.ts[0])
		}
		return Val{ts: []Term{cur}}, h
	case "ssa:wrapnilchk":
		return args[0], h
	case "print", "println":
		return Val{}, h
	case "close":
		return Val{}, h
	case "panic":
		return Val{}, h
	}
	x.note("builtin " + bi.Name())
	return x.freshVal("builtin", rt), h
}

func (fr *frame) appendBuiltin(args []Val, atypes []types.Type, rt types.Type, reach Term, h Heap) (Val, Heap) {
	x := fr.x
	st, ok := rt.Underlying().(*types.Slice)
	if !ok {
		return x.freshVal("append", rt), h
	}
	s := args[0]
	var add Val
	if isString(atypes[1]) {
		ln := app("strlen", args[1].ts[0])
		add = Val{ts: []Term{x.freshConst("strdata", "Int"), "0", ln, ln}}
	} else {
		add = args[1]
	}
	et := st.Elem()
	newLen := app("+", s.ts[2], add.ts[2])
	// result slice: fresh backing array (the in-place case is over-approximated by a fresh copy plus
	// havoc of nothing: sound only when no other alias of the old backing array observes the append;
	// we model both cases with a nondeterministic base).
	inPlace := app("<=", newLen, s.ts[3])
	nb := x.freshConst("appbase", "Int")
	x.regKey(keyAlloc, "Int")
	x.sc.assert(implies(not(inPlace), and(app(">", nb, x.hget(h, keyAlloc)), app(">", nb, "0"))))
	x.sc.assert(implies(inPlace, eq(nb, s.ts[0])))
	x.sc.assert(implies(eq(add.ts[2], "0"), and(eq(nb, s.ts[0]))))
	na := x.freshConst("alloc", "Int")
	x.sc.assert(and(app(">=", na, x.hget(h, keyAlloc)), app(">=", na, nb)))
	nh := h.set(keyAlloc, na)
	// a named constant, not the ite term itself: the offset occurs in quantifier patterns, where `ite` is not allowed
	noff := x.freshConst("appoff", "Int")
	x.sc.assert(eq(noff, ite(inPlace, s.ts[1], "0")))
	ncap := x.freshConst("appcap", "Int")
	x.sc.assert(and(app(">=", ncap, newLen), implies(inPlace, eq(ncap, s.ts[3]))))
	res := Val{ts: []Term{nb, noff, newLen, ncap}}
	if isScalarElem(et) {
		for _, l := range leaves(et) {
			key := elemKeyOf(et, "") + l.Path
			x.regKey(key, "(Array Int "+heapSort(l.Sort)+")")
			old := x.hget(h, key)
			oldArr := app("select", old, s.ts[0])
			srcArr := app("select", old, add.ts[0])
			newArr := x.freshConst("apparr", heapSort(l.Sort))
			// contents: [0,len) from s, [len,len+k) from add, everything else of the in-place array unchanged
			x.sc.assert(fmt.Sprintf("(forall ((i! Int)) (! (=> (and (<= 0 i!) (< i! %s)) (= (select %s %s) (select %s %s))) :pattern ((select %s %s))))",
				s.ts[2], newArr, sidx(noff, "i!"), oldArr, sidx(s.ts[1], "i!"), newArr, sidx(noff, "i!")))
			x.sc.assert(fmt.Sprintf("(forall ((i! Int)) (! (=> (and (<= %s i!) (< i! %s)) (= (select %s %s) (select %s %s))) :pattern ((select %s %s))))",
				s.ts[2], newLen, newArr, sidx(noff, "i!"), srcArr, sidx(add.ts[1], app("-", "i!", s.ts[2])), newArr, sidx(noff, "i!")))
			x.sc.assert(implies(inPlace, fmt.Sprintf("(forall ((i! Int)) (! (=> (or (< i! (+ %s %s)) (>= i! (+ %s %s))) (= (select %s i!) (select %s i!))) :pattern ((select %s i!))))",
				s.ts[1], s.ts[2], s.ts[1], newLen, newArr, oldArr, newArr)))
			// single-element fast path (no quantifier needed by the solver)
			if isSimple(add.ts[2]) && add.ts[2] == "1" {
				x.sc.assert(eq(app("select", newArr, sidx(noff, s.ts[2])), app("select", srcArr, sidx(add.ts[1], "0"))))
			}
			nh = x.hset(nh, key, ite(eq(add.ts[2], "0"), old, app("store", old, nb, newArr)))
		}
	} else if stT, isStruct := et.Underlying().(*types.Struct); isStruct {
		// struct elements live at elemaddr(base, index); their scalar fields in the field heaps at that address.
		// Every field heap is rewritten at the addresses of the result's elements: [0,len) from s, [len,len+k) from
		// add, all other addresses unchanged. Fields that are themselves arrays / structs (embedded at their own
		// addresses) are not copied: their contents in the result are unconstrained (an over-approximation).
		x.elemAddr(et, "0", "0") // declares the addressing function and its inverses
		ea := sym("elemaddr!" + cleanKey(typeKey(et)))
		eb := sym("elemaddr_b!" + cleanKey(typeKey(et)))
		ei := sym("elemaddr_i!" + cleanKey(typeKey(et)))
		for i := 0; i < stT.NumFields(); i++ {
			f := stT.Field(i)
			if isAggregate(f.Type()) {
				x.note("append of struct elements: embedded field " + f.Name() + " of " + et.String() + " is not copied (unconstrained in the result)")
				continue
			}
			for _, l := range leaves(f.Type()) {
				key := fieldKey(et, "."+f.Name()) + l.Path
				x.regKey(key, heapSort(l.Sort))
				old := x.hget(h, key)
				nw := x.freshConst("appfld", heapSort(l.Sort))
				idx := app(ei, "p!")
				rel := app("-", idx, noff)
				isElem := and(eq("p!", app(ea, app(eb, "p!"), idx)), eq(app(eb, "p!"), nb), app("<=", noff, idx), app("<", rel, newLen))
				src := ite(app("<", rel, s.ts[2]),
					app("select", old, app(ea, s.ts[0], sidx(s.ts[1], rel))),
					app("select", old, app(ea, add.ts[0], sidx(add.ts[1], app("-", rel, s.ts[2])))))
				x.sc.assert(fmt.Sprintf("(forall ((p! Int)) (! (= (select %s p!) (ite %s %s (select %s p!))) :pattern ((select %s p!))))", nw, isElem, src, old, nw))
				nh = x.hset(nh, key, ite(eq(add.ts[2], "0"), old, nw))
			}
		}
	}
	return res, nh
}

func (fr *frame) copyBuiltin(args []Val, atypes []types.Type, reach Term, h Heap) (Val, Heap) {
	x := fr.x
	dst := args[0]
	var srcLen, srcOff Term
	st := atypes[0].Underlying().(*types.Slice)
	et := st.Elem()
	fromString := isString(atypes[1])
	if fromString {
		srcLen, srcOff = app("strlen", args[1].ts[0]), "0"
	} else {
		srcLen, srcOff = args[1].ts[2], args[1].ts[1]
	}
	n := ite(app("<=", dst.ts[2], srcLen), dst.ts[2], srcLen)
	nn := x.freshConst("copyn", "Int")
	x.sc.assert(eq(nn, n))
	nh := h
	if isScalarElem(et) {
		for _, l := range leaves(et) {
			key := elemKeyOf(et, "") + l.Path
			x.regKey(key, "(Array Int "+heapSort(l.Sort)+")")
			old := x.hget(h, key)
			dstArr := app("select", old, dst.ts[0])
			newArr := x.freshConst("copyarr", heapSort(l.Sort))
			if fromString {
				x.sc.declFun("strat", []string{"Int", "Int"}, "Int")
				x.sc.assert(fmt.Sprintf("(forall ((i! Int)) (! (=> (and (<= 0 i!) (< i! %s)) (= (select %s %s) (strat %s i!))) :pattern ((select %s %s))))",
					nn, newArr, sidx(dst.ts[1], "i!"), args[1].ts[0], newArr, sidx(dst.ts[1], "i!")))
			} else {
				srcArr := app("select", old, args[1].ts[0])
				x.sc.assert(fmt.Sprintf("(forall ((i! Int)) (! (=> (and (<= 0 i!) (< i! %s)) (= (select %s %s) (select %s %s))) :pattern ((select %s %s))))",
					nn, newArr, sidx(dst.ts[1], "i!"), srcArr, sidx(srcOff, "i!"), newArr, sidx(dst.ts[1], "i!")))
				// the same fact indexed by the absolute position (a read through another slice of the same array - e.g.
				// s[k] after copy(s[j+1:], s[j:]) - does not mention the destination's offset)
				x.sc.assert(fmt.Sprintf("(forall ((j! Int)) (! (=> (and (<= %s j!) (< j! (+ %s %s))) (= (select %s j!) (select %s (+ %s (- j! %s))))) :pattern ((select %s j!))))",
					dst.ts[1], dst.ts[1], nn, newArr, srcArr, srcOff, dst.ts[1], newArr))
			}
			x.sc.assert(fmt.Sprintf("(forall ((i! Int)) (! (=> (or (< i! %s) (>= i! (+ %s %s))) (= (select %s i!) (select %s i!))) :pattern ((select %s i!))))",
				dst.ts[1], dst.ts[1], nn, newArr, dstArr, newArr))
			nh = x.hset(nh, key, app("store", old, dst.ts[0], newArr))
		}
	} else {
		x.note("copy of composite elements")
	}
	if len(fr.fn.Blocks) > 0 {
		nh = x.bumpEpoch(nh)
	}
	return Val{ts: []Term{nn}}, nh
}

// special: library functions with built-in semantics.
func (fr *frame) special(b *ssa.BasicBlock, site ssa.Instruction, name string, c *ssa.CallCommon, args []Val, atypes []types.Type, rt types.Type, reach Term, h Heap) (Val, Heap, bool) {
	x := fr.x
	switch name {
	case "errors.New", "github.com/pkg/errors.New", "github.com/pkg/errors.Errorf", "fmt.Errorf":
		res := x.freshVal("err", rt)
		// the dynamic type is private to the library (fmt.wrapError, errors.errorString, errors.fundamental):
		// it is none of the types the verified code can name (their ids are positive) and not nil (0)
		x.sc.assert(app("<", res.ts[0], "0"))
		if name == "fmt.Errorf" || name == "github.com/pkg/errors.Errorf" {
			x.sc.assert(x.errClassPreserved(fr, c, res))
		}
		return res, h, true
	case "github.com/pkg/errors.Wrap", "github.com/pkg/errors.Wrapf", "github.com/pkg/errors.WithMessage", "github.com/pkg/errors.WithMessagef", "github.com/pkg/errors.WithStack":
		res := x.freshVal("err", rt)
		x.sc.assert(eq(eq(res.ts[0], "0"), eq(args[0].ts[0], "0")))
		x.sc.declFun("errclass", []string{"Int", "Int"}, "Int")
		x.sc.assert(eq(app("errclass", res.ts[0], res.ts[1]), app("errclass", args[0].ts[0], args[0].ts[1])))
		return res, h, true
	case "errors.Is", "github.com/pkg/errors.Is":
		// a function of the two error values; a nil error matches only a nil target, an error matches itself
		if len(args) != 2 || len(args[0].ts) != 2 || len(args[1].ts) != 2 {
			return Val{}, h, false
		}
		x.sc.declFun("errorsIs", []string{"Int", "Int", "Int", "Int"}, "Bool")
		r := app("errorsIs", args[0].ts[0], args[0].ts[1], args[1].ts[0], args[1].ts[1])
		x.sc.assert(implies(and(r, eq(args[0].ts[0], "0")), eq(args[1].ts[0], "0")))
		x.sc.assert(implies(and(eq(args[0].ts[0], args[1].ts[0]), eq(args[0].ts[1], args[1].ts[1])), r))
		return Val{ts: []Term{r}}, h, true
	case "(encoding/binary.littleEndian).PutUint64", "(encoding/binary.littleEndian).Uint64":
		// args: receiver (empty struct), b []byte, [v uint64]
		bi := len(args) - 1
		if name == "(encoding/binary.littleEndian).PutUint64" {
			bi = len(args) - 2
		}
		bs := args[bi]
		fr.safety(b, "slice-too-short-for-uint64", site.Pos(), reach, app(">=", bs.ts[2], "8"))
		x.sc.declFun("le64byte", []string{"Int", "Int"}, "Int")
		x.sc.declFun("le64dec", []string{"Int", "Int", "Int", "Int", "Int", "Int", "Int", "Int"}, "Int")
		if _, ok := x.sc.decls["le64!axiom"]; !ok {
			x.sc.decls["le64!axiom"] = "; little-endian codec axioms"
			x.sc.declOrder = append(x.sc.declOrder, "le64!axiom")
			x.sc.assert("(forall ((v Int)) (! (=> (and (<= 0 v) (< v 18446744073709551616)) (= (le64dec (le64byte v 0) (le64byte v 1) (le64byte v 2) (le64byte v 3) (le64byte v 4) (le64byte v 5) (le64byte v 6) (le64byte v 7)) v)) :pattern ((le64byte v 0))))")
			x.sc.assert("(forall ((v Int) (k Int)) (! (and (<= 0 (le64byte v k)) (< (le64byte v k) 256)) :pattern ((le64byte v k))))")
			x.assumed["encoding/binary.LittleEndian: Uint64(PutUint64(v)) = v (uninterpreted byte codec with round-trip axiom)"] = true
		}
		ek := elemKeyOf(types.Typ[types.Uint8], "")
		x.regKey(ek, "(Array Int (Array Int Int))")
		old := x.hget(h, ek)
		arr := app("select", old, bs.ts[0])
		if name == "(encoding/binary.littleEndian).Uint64" {
			var bytes8 []Term
			for k := 0; k < 8; k++ {
				bytes8 = append(bytes8, app("select", arr, sidx(bs.ts[1], num(int64(k)))))
			}
			res := Val{ts: []Term{app("le64dec", bytes8...)}}
			x.sc.assert(implies(reach, rangeFact(types.Typ[types.Uint64], res.ts[0])))
			return res, h, true
		}
		v := args[len(args)-1].ts[0]
		newArr := x.freshConst("putarr", "(Array Int Int)")
		for k := 0; k < 8; k++ {
			x.sc.assert(eq(app("select", newArr, sidx(bs.ts[1], num(int64(k)))), app("le64byte", v, num(int64(k)))))
		}
		x.sc.assert(fmt.Sprintf("(forall ((i! Int)) (! (=> (or (< i! %s) (>= i! (+ %s 8))) (= (select %s i!) (select %s i!))) :pattern ((select %s i!))))",
			bs.ts[1], bs.ts[1], newArr, arr, newArr))
		nh := x.hset(h, ek, app("store", old, bs.ts[0], newArr))
		return Val{}, x.bumpEpoch(nh), true
	case "fmt.Sprintf":
		// formats built only from %s, %d and literal text are modelled as string concatenation
		if fc, ok := c.Args[0].(*ssa.Const); ok && fc.Value != nil && len(c.Args) == 2 {
			format := constantString(fc)
			elems := varargElems(c.Args[1])
			if res, ok2 := fr.sprintfModel(format, elems); ok2 {
				return Val{ts: []Term{res}}, h, true
			}
		}
		return Val{}, h, false
	case "strings.Replace":
		// strings.Replace(s, old, "", 1): removes the first occurrence of old; axiom: replace1(old ++ x, old) = x
		if nc, ok := c.Args[2].(*ssa.Const); ok && nc.Value != nil && constantString(nc) == "" {
			if cnt, ok2 := c.Args[3].(*ssa.Const); ok2 && cnt.Value != nil && cnt.Value.ExactString() == "1" {
				x.sc.declFun("strreplace1", []string{"Int", "Int"}, "Int")
				if _, done := x.sc.decls["strreplace1!axiom"]; !done {
					x.sc.decls["strreplace1!axiom"] = "; strings.Replace(p++x, p, \"\", 1) = x"
					x.sc.declOrder = append(x.sc.declOrder, "strreplace1!axiom")
					x.sc.assert("(forall ((p Int) (y Int)) (! (= (strreplace1 (strcat p y) p) y) :pattern ((strreplace1 (strcat p y) p))))")
					x.assumed["strings.Replace(p+x, p, \"\", 1) == x (first occurrence of a prefix is at index 0)"] = true
				}
				return Val{ts: []Term{app("strreplace1", args[0].ts[0], args[1].ts[0])}}, h, true
			}
		}
		return Val{}, h, false
	case "bytes.Equal":
		ek := elemKeyOf(types.Typ[types.Uint8], "")
		x.regKey(ek, "(Array Int (Array Int Int))")
		a, c2 := args[0], args[1]
		va := app("bytesval", app("select", x.hget(h, ek), a.ts[0]), a.ts[1], a.ts[2])
		vb := app("bytesval", app("select", x.hget(h, ek), c2.ts[0]), c2.ts[1], c2.ts[2])
		// bytesval is the byte sequence itself: equal values mean equal bytes at every position (the other direction
		// is congruence). Stated once per script, only where bytes.Equal occurs.
		if _, done := x.sc.decls["$bytesval_injective"]; !done {
			x.sc.decls["$bytesval_injective"] = ""
			x.sc.assert("(forall ((a! (Array Int Int)) (oa! Int) (b! (Array Int Int)) (ob! Int) (l! Int)) (! (=> (= (bytesval a! oa! l!) (bytesval b! ob! l!)) (forall ((i! Int)) (! (=> (and (<= 0 i!) (< i! l!)) (= (select a! (+ oa! i!)) (select b! (+ ob! i!)))) :pattern ((select a! (+ oa! i!)))))) :pattern ((bytesval a! oa! l!) (bytesval b! ob! l!))))")
		}
		return Val{ts: []Term{and(eq(a.ts[2], c2.ts[2]), or(eq(a.ts[2], "0"), eq(va, vb)))}}, h, true
	case "(*sync.Mutex).Lock", "(*sync.RWMutex).Lock", "(*sync.RWMutex).RLock":
		// acquiring a lock is a point where writes of other goroutines become visible
		return Val{}, fr.interfere(h), true
	case "(*sync.Mutex).Unlock", "(*sync.RWMutex).Unlock", "(*sync.RWMutex).RUnlock":
		return Val{}, h, true
	case "sync/atomic.StoreInt64", "sync/atomic.StoreUint64", "sync/atomic.StoreInt32", "sync/atomic.StoreUint32":
		nh := x.storeAt(h, args[0], atypes[1], args[1])
		return Val{}, x.bumpEpoch(nh), true
	case "(*sync/atomic.Int64).Load", "(*sync/atomic.Uint64).Load", "(*sync/atomic.Int32).Load", "(*sync/atomic.Uint32).Load", "(*sync/atomic.Bool).Load":
		// shared word: arbitrary value of the type
		res := x.freshVal("atomic", rt)
		x.sc.assert(x.typeFacts(rt, res, h))
		return res, h, true
	case "sync/atomic.LoadInt64", "sync/atomic.LoadUint64", "sync/atomic.LoadInt32", "sync/atomic.LoadUint32":
		// sequential read of the word; interference by other goroutines is modelled at blocking points (shared)
		res := x.loadAt(h, args[0], rt)
		x.sc.assert(implies(reach, x.typeFacts(rt, res, h)))
		return res, h, true
	}
	return Val{}, h, false
}

func constantString(c *ssa.Const) string {
	if c.Value == nil || c.Value.Kind() != constant.String {
		return "\x00"
	}
	return constant.StringVal(c.Value)
}

// varargElems recovers the values stored into the array behind a variadic []any argument
// (new [n]any; a[i] = make interface x_i; slice a[:]).
func varargElems(v ssa.Value) []ssa.Value {
	sl, ok := v.(*ssa.Slice)
	if !ok {
		return nil
	}
	al, ok := sl.X.(*ssa.Alloc)
	if !ok || al.Referrers() == nil {
		return nil
	}
	at, ok := derefType(al.Type()).Underlying().(*types.Array)
	if !ok {
		return nil
	}
	out := make([]ssa.Value, at.Len())
	for _, r := range *al.Referrers() {
		ia, ok := r.(*ssa.IndexAddr)
		if !ok || ia.Referrers() == nil {
			continue
		}
		ic, ok := ia.Index.(*ssa.Const)
		if !ok || ic.Value == nil {
			return nil
		}
		idx, _ := constant.Int64Val(ic.Value)
		for _, rr := range *ia.Referrers() {
			if st, ok := rr.(*ssa.Store); ok && st.Addr == ia && idx >= 0 && idx < int64(len(out)) {
				val := st.Val
				if mi, ok := val.(*ssa.MakeInterface); ok {
					val = mi.X
				}
				out[idx] = val
			}
		}
	}
	for _, o := range out {
		if o == nil {
			return nil
		}
	}
	return out
}

// sprintfModel: concatenation model of fmt.Sprintf for formats made of literal text, %s (string operands)
// and %d (integer operands).
func (fr *frame) sprintfModel(format string, elems []ssa.Value) (Term, bool) {
	x := fr.x
	var cur Term
	add := func(t Term) {
		if cur == "" {
			cur = t
			return
		}
		res := app("strcat", cur, t)
		cur = res
	}
	k := 0
	lit := ""
	flush := func() {
		if lit != "" {
			add(x.strConst(lit))
			lit = ""
		}
	}
	for i := 0; i < len(format); i++ {
		if format[i] != '%' {
			lit += string(format[i])
			continue
		}
		if i+1 >= len(format) || k >= len(elems) {
			return "", false
		}
		i++
		switch format[i] {
		case 's':
			if !isString(elems[k].Type()) {
				return "", false
			}
			if cc, isConst := elems[k].(*ssa.Const); isConst && cc.Value != nil {
				lit += constantString(cc) // constant operands fold into the literal text (as Go folds constant concatenation)
			} else {
				flush()
				add(fr.get(elems[k]).ts[0])
			}
		case 'd':
			if isInt, _, _ := intRange(elems[k].Type()); !isInt {
				return "", false
			}
			flush()
			x.sc.declFun("int2str", []string{"Int"}, "Int")
			add(app("int2str", fr.get(elems[k]).ts[0]))
		default:
			return "", false
		}
		k++
	}
	flush()
	if k != len(elems) {
		return "", false
	}
	if cur == "" {
		cur = "0"
	}
	return cur, true
}

// errClassPreserved: fmt.Errorf("...%w", err) keeps the class of the wrapped error.
func (x *Enc) errClassPreserved(fr *frame, c *ssa.CallCommon, res Val) Term {
	return "true"
}
