package main

import (
	"fmt"
	"go/constant"
	"go/token"
	"go/types"
	"sort"
	"strings"

	"golang.org/x/tools/go/ssa"
)

type Obligation struct {
	Name   string
	Kind   string // ensures, requires, invariant, safety, frame, lemma, cover
	Func   string
	Pos    string
	Text   string
	Goal   Term // the negated goal: sat = refuted
	Script *Script
	Cover  bool // cover obligations must be SAT
	// NAsserts: how many assertions of the shared script precede this obligation (-1: all)
	NAsserts int
	// results
	Status string // unsat | sat | unknown
	Solver string
	Time   float64
	Model  string
	Output string
	// for replay of refuted postconditions
	Con        *Contract
	Cl         *Clause
	ParamTerms map[string][]Term // synthetic parameter name -> SMT terms of its leaves at function entry
	ByteHeap   Term              // entry-state contents of byte slices: (select ByteHeap base) is a slice's backing array
}

type localAlloc struct {
	ref   Term
	keys  []string
	alloc *ssa.Alloc
}

type closureInfo struct {
	fn       *ssa.Function
	bindings []Val
}

// Enc encodes one top-level function (plus inlined callees) into a Script and obligations.
type Enc struct {
	eng         *Engine
	sc          *Script
	top         *ssa.Function
	con         *Contract
	keys        map[string]string
	changed     bool
	nfresh      int
	curPrefix   string
	obls        []*Obligation
	loopMods    map[string]map[string]bool // header id -> keys
	localAllocs []localAlloc
	strs        map[string]Term
	notes       map[string]bool
	safety      bool
	typeIDs     map[string]int
	oblNames    map[string]int
	prop        string
	assumed     map[string]bool // callee contracts / axioms used
	resTypes    map[string]types.Type // ghost counter -> type of the (first) result of the calls it watched
	embArrs     map[string]embArr     // embedding function -> the embedded array field it addresses
	effectFree  map[string]bool
	havocCalls  map[string]bool
	nEmb        int
	nElem       int
	topFr       *frame
	topDerefs  map[string]derefVar
	countHits  map[string]int
	loopOrd    map[*ssa.BasicBlock]int
	noPreserve map[string]bool // keys exempt from havoc_preserves during the havoc of one contracted call
	autoInlined map[string]bool // uncontracted repository functions whose bodies were encoded in place
	usedCons    map[string]*Contract // repository contracts applied at call sites (their own proofs are pulled into the same check: callee closure)
	sweep       bool            // `gowp sweep`: reference-typed parameters are assumed non-nil
}

func (x *Enc) note(s string) { x.notes[s] = true }

type retInfo struct {
	reach Term
	vals  []Val
	heap  Heap
	pos   token.Pos
}

type frame struct {
	x       *Enc
	fn      *ssa.Function
	prefix  string
	vals    map[ssa.Value]Val
	reach   map[*ssa.BasicBlock]Term
	heapOut map[*ssa.BasicBlock]Heap
	heapIn  map[*ssa.BasicBlock]Heap
	rets    []retInfo
	depth   int
	con     *Contract
	entry   Heap
	params  map[string]Val // by name, for spec evaluation
	ptypes  map[string]types.Type
	defers  []*ssa.Defer
	backEdge map[[2]*ssa.BasicBlock]bool
	headers  map[*ssa.BasicBlock]int // loop header -> ordinal
	pure     map[string]bool         // pure param names / interface methods (this function)
	narrow   Term                    // set by an inlined call: condition under which the call returned
}

func newEnc(eng *Engine, fn *ssa.Function, con *Contract, prop string) *Enc {
	return &Enc{eng: eng, top: fn, con: con, keys: map[string]string{}, loopMods: map[string]map[string]bool{}, strs: map[string]Term{},
		notes: map[string]bool{}, typeIDs: map[string]int{}, oblNames: map[string]int{}, prop: prop, assumed: map[string]bool{}, effectFree: map[string]bool{}, havocCalls: map[string]bool{}, autoInlined: map[string]bool{}, usedCons: map[string]*Contract{}}
}

// run encodes until the heap-key set and the loop modification sets are stable.
func (x *Enc) run() {
	currentPure = map[string]bool{}
	escapeCache = map[*ssa.Alloc]bool{}
	if x.con != nil {
		for _, p := range x.con.PureParams {
			currentPure[p] = true
		}
		if len(x.con.PureParams) > 0 && x.top != nil {
			x.assumed[shortFn(x.top)+": callees / function values treated as pure (no heap effect; result a function of arguments and heap state): "+strings.Join(x.con.PureParams, ", ")] = true
		}
	}
	for iter := 0; iter < 12; iter++ {
		x.changed = false
		x.sc = newScript()
		x.obls = nil
		x.nfresh = 0
		x.localAllocs = nil
		x.oblNames = map[string]int{}
		x.strs = map[string]Term{}
		x.countHits = nil
		x.nEmb = 0
		x.nElem = 0
		x.encodeTop()
		if !x.changed {
			return
		}
	}
	x.note("fixpoint over heap keys did not converge in 12 rounds")
}

func (x *Enc) addObl(kind, label, text string, pos token.Pos, guard, goal Term) {
	name := label
	x.oblNames[name]++
	if n := x.oblNames[name]; n > 1 {
		name = fmt.Sprintf("%s#%d", name, n)
	}
	p := ""
	if pos.IsValid() {
		pp := x.eng.fset.Position(pos)
		p = fmt.Sprintf("%s:%d", strings.TrimPrefix(pp.Filename, x.eng.repo+"/"), pp.Line)
	}
	x.obls = append(x.obls, &Obligation{Name: name, Kind: kind, Func: x.top.String(), Pos: p, Text: text,
		Goal: and(guard, not(goal)), Script: x.sc, NAsserts: len(x.sc.asserts)})
}

// replayInfo records what a replay of the obligation on the real code needs: the SMT terms of the top function's
// parameters at entry and the entry-state byte heap.
func (x *Enc) replayInfo(ob *Obligation, fr *frame, h0 Heap) {
	if x.con == nil || fr == nil {
		return
	}
	ob.ParamTerms = map[string][]Term{}
	np := len(fr.fn.Params)
	for i, n := range x.con.SynParams {
		if i >= np {
			break
		}
		if v, ok := fr.vals[fr.fn.Params[i]]; ok && v.fp == nil && len(v.ts) > 0 {
			ob.ParamTerms[n] = v.ts
		}
	}
	bk := elemKeyOf(types.Typ[types.Uint8], "")
	if _, ok := x.keys[bk]; ok {
		ob.ByteHeap = x.hget(h0, bk)
	}
}

func (x *Enc) addCover(label string, pos token.Pos, cond Term) {
	x.obls = append(x.obls, &Obligation{Name: label, Kind: "cover", Func: x.top.String(), Goal: cond, Script: x.sc, Cover: true, NAsserts: len(x.sc.asserts)})
}

func (x *Enc) encodeTop() {
	fn := x.top
	x.curPrefix = "f"
	x.regKey(keyAlloc, "Int")
	x.regKey(keyEpoch, "Int")
	h0 := Heap{base: "0", m: map[string]Term{}}
	fr := x.newFrame(fn, "f", 0, x.con)
	x.topFr = fr
	// parameters
	var facts []Term
	for _, p := range fn.Params {
		v := x.freshVal("p_"+p.Name(), p.Type())
		fr.vals[p] = v
		fr.params[p.Name()] = v
		fr.ptypes[p.Name()] = p.Type()
		facts = append(facts, x.typeFacts(p.Type(), v, h0))
		if x.sweep && len(v.ts) > 0 {
			switch p.Type().Underlying().(type) {
			case *types.Pointer, *types.Interface, *types.Map, *types.Chan, *types.Signature:
				facts = append(facts, not(eq(v.ts[0], "0")))
			}
		}
	}
	x.topDerefs = map[string]derefVar{}
	for _, p := range fn.FreeVars {
		v := x.freshVal("fv_"+p.Name(), p.Type())
		fr.vals[p] = v
		facts = append(facts, x.typeFacts(p.Type(), v, h0))
		// captured variables: the closure holds a pointer to the variable; in specifications the name
		// denotes the variable's current content
		if pt, isPtr := p.Type().Underlying().(*types.Pointer); isPtr {
			facts = append(facts, app(">", v.ts[0], "0"))
			x.topDerefs[p.Name()] = derefVar{ptr: v, typ: pt.Elem()}
		} else {
			fr.params[p.Name()] = v
		}
	}
	x.sc.assertC(and(facts...), "parameter type facts")
	// axioms of the package
	for _, pk := range []string{"", pkgPathOf(fn)} {
		for _, ax := range x.eng.axioms[pk] {
			env := x.newSpecEnv(x.eng.clauses[ax], nil, h0, h0)
			x.sc.assertC(x.evalBool(env, clauseExpr(x.eng.clauses[ax])), "axiom "+ax.Label)
			x.assumed["axiom "+ax.Label+": "+ax.Text] = true
		}
		for _, lm := range x.eng.lemmas[pk] {
			env := x.newSpecEnv(x.eng.clauses[lm], nil, h0, h0)
			x.sc.assertC(x.evalBool(env, clauseExpr(x.eng.clauses[lm])), "lemma (proved separately) "+lm.Label)
		}
	}
	// preconditions
	var pre []Term
	if x.con != nil {
		for _, c := range x.con.Requires {
			ci := x.eng.clauses[c]
			env := x.newSpecEnv(ci, fr.paramVals(ci.params, nil), h0, h0)
			t := x.evalBool(env, clauseExpr(ci))
			x.sc.assertC(t, "requires "+c.Text)
			pre = append(pre, t)
		}
		for _, c := range x.con.Givens {
			ci := x.eng.clauses[c]
			env := x.newSpecEnv(ci, fr.paramVals(ci.params, nil), h0, h0)
			x.sc.assertC(x.evalBool(env, clauseExpr(ci)), "given (ghost hypothesis) "+c.Text)
			gl := c.Label
			if gl == "" {
				gl = "given"
			}
			x.assumed[shortFn(fn)+": ghost hypothesis "+gl+" (assumed in the body; antecedent of the postconditions at call sites): "+c.Text] = true
		}
	}
	if x.con != nil && len(x.con.HavocPreserves) > 0 {
		x.assumed[shortFn(fn)+": uncontracted callees do not write fields of "+strings.Join(x.con.HavocPreserves, ", ")] = true
	}
	if x.con != nil {
		for _, cs := range x.con.Counts {
			k := "$cnt:" + cs[0]
			x.regKey(k, "Int")
			x.sc.assertC(eq(x.hget(h0, k), "0"), "ghost call counter "+cs[0]+" starts at 0")
		}
	}
	fr.entry = h0
	fr.encode("true", h0)
	// cover: precondition satisfiable and each return reachable
	x.addCover("cover.requires", token.NoPos, "true")
	// vacuity guard: a ghost call counter that watches no call site would make every clause about it vacuous
	if x.con != nil {
		for _, cs := range x.con.Counts {
			if strings.HasPrefix(cs[0], "!forbid:") {
				goal := "true"
				if x.countHits[cs[0]] > 0 {
					goal = "false"
				}
				if strings.HasPrefix(cs[1], "builtin:") && callsBuiltin(fn, cs[1][len("builtin:"):]) {
					// syntactic: the function and every closure it makes (a deferred clean-up is one)
					goal = "false"
				}
				x.addObl("forbid", fmt.Sprintf("%s.forbid[%s].no_call_site", shortFn(fn), cs[1]), "the function must not call "+cs[1], token.NoPos, "true", goal)
				continue
			}
			if p, ok := x.con.PropOnly["count["+cs[0]+"]"]; ok && p != x.prop {
				continue
			}
			if x.countHits[cs[0]] == 0 {
				x.addObl("vacuity", fmt.Sprintf("%s.count[%s].matches_a_call_site", shortFn(fn), cs[0]), "count pattern "+cs[1]+" matches no call in the function", token.NoPos, "true", "false")
			}
		}
	}
	// a havoc_preserves pattern that names no heap key preserves nothing (harmless, but usually a typo: the key
	// carries the package name, not the import alias)
	if x.con != nil {
		for _, tn := range x.con.HavocPreserves {
			hit := false
			for k := range x.keys {
				if strings.HasPrefix(tn, "key:") {
					hit = hit || strings.HasPrefix(k, tn[4:])
				} else if (strings.HasPrefix(k, "F:") || strings.HasPrefix(k, "P:")) && strings.Contains(k, tn+":") {
					hit = true
				}
			}
			for _, ea := range x.embArrs {
				hit = hit || (ea.key != "" && strings.HasSuffix(typeKey(ea.structT), tn))
			}
			if !hit {
				x.note("havoc_preserves " + tn + " matches no heap key")
			}
		}
	}
	// postconditions at each return
	if x.con != nil {
		for ri, r := range fr.rets {
			for ci, c := range x.con.Ensures {
				if p, ok := x.con.PropOnly[c.Label]; ok && p != x.prop {
					continue
				}
				info := x.eng.clauses[c]
				env := x.newSpecEnv(info, fr.paramVals(info.params, r.vals), r.heap, h0)
				goal := x.evalBool(env, clauseExpr(info))
				label := c.Label
				if label == "" {
					label = fmt.Sprintf("ens%d", ci)
				}
				x.addObl("ensures", fmt.Sprintf("%s.%s@ret%d", shortFn(fn), label, ri), c.Text, r.pos, r.reach, goal)
				last := x.obls[len(x.obls)-1]
				last.Con, last.Cl = x.con, c
				x.replayInfo(last, fr, h0)
			}
			if !x.con.NoFrame {
				x.frameObligations(fr, r, ri, h0)
			}
		}
	}
}

// callsBuiltin: fn or a closure made (transitively) inside it has a call, go or defer of the named builtin.
func callsBuiltin(fn *ssa.Function, name string) bool {
	for _, b := range fn.Blocks {
		for _, in := range b.Instrs {
			ci, ok := in.(ssa.CallInstruction)
			if !ok {
				continue
			}
			if bi, isB := ci.Common().Value.(*ssa.Builtin); isB && bi.Name() == name {
				return true
			}
		}
	}
	for _, af := range fn.AnonFuncs {
		if callsBuiltin(af, name) {
			return true
		}
	}
	return false
}

func pkgPathOf(fn *ssa.Function) string {
	if fn.Pkg != nil {
		return fn.Pkg.Pkg.Path()
	}
	if fn.Parent() != nil {
		return pkgPathOf(fn.Parent())
	}
	return ""
}

func shortFn(fn *ssa.Function) string {
	s := fn.String()
	if i := strings.LastIndex(s, "/"); i >= 0 {
		pre := ""
		if strings.HasPrefix(s, "(*") {
			pre = "(*"
		} else if strings.HasPrefix(s, "(") {
			pre = "("
		}
		s = pre + s[i+1:]
	}
	return s
}

// frameObligations: every heap key not covered by the modifies clause is unchanged for
// all objects that existed at entry.
func (x *Enc) frameObligations(fr *frame, r retInfo, ri int, h0 Heap) {
	modKeys, modLocs, all := x.modifiesOf(x.con, fr.paramVals(x.con.SynParams, nil), h0)
	if all {
		return
	}
	for _, k := range sortedKeys(x.keys) {
		if strings.HasPrefix(k, "$") || modKeys[k] {
			continue
		}
		a, b := x.hget(r.heap, k), x.hget(h0, k)
		if a == b {
			continue
		}
		// locations allowed to change for this key
		var except []Term
		for _, l := range modLocs[k] {
			except = append(except, not(eq("p!", l)))
		}
		goal := fmt.Sprintf("(forall ((p! Int)) (=> %s (= (select %s p!) (select %s p!))))",
			and(append([]Term{app("<=", "p!", x.hget(h0, keyAlloc)), app(">", "p!", "0")}, except...)...), a, b)
		x.addObl("frame", fmt.Sprintf("%s.frame[%s]@ret%d", shortFn(x.top), cleanKey(k), ri), "unchanged outside modifies: "+k, r.pos, r.reach, goal)
	}
}

// modifiesOf evaluates a contract's modifies clause: whole keys, single locations per key, or everything.
func (x *Enc) modifiesOf(c *Contract, params map[string]Val, h Heap) (map[string]bool, map[string][]Term, bool) {
	keys := map[string]bool{}
	locs := map[string][]Term{}
	if c == nil {
		return keys, locs, true
	}
	if !c.HasMod {
		if c.Pure {
			return keys, locs, false
		}
		return keys, locs, false // default: modifies nothing (checked)
	}
	return x.locsOf(c, c.Modifies, "mod", params, h)
}

// sharedOf: locations other goroutines may write (havoced at blocking points).
func (x *Enc) sharedOf(c *Contract, params map[string]Val, h Heap) (map[string]bool, map[string][]Term) {
	if c == nil || len(c.Shared) == 0 {
		return nil, nil
	}
	k, l, _ := x.locsOf(c, c.Shared, "shared", params, h)
	return k, l
}

// interfere havocs the shared locations of the top contract (called at blocking operations).
func (fr *frame) interfere(h Heap) Heap {
	x := fr.x
	if x.con == nil || len(x.con.Shared) == 0 || x.topFr == nil {
		return h
	}
	keys, locs := x.sharedOf(x.con, x.topFr.paramVals(x.con.SynParams, nil), x.topFr.entry)
	for _, k := range sortedKeys(keys) {
		h = h.set(k, x.freshConst("Hshared!"+cleanKey(k), x.keys[k]))
	}
	for _, k := range sortedKeys(locs) {
		if keys[k] {
			continue
		}
		cur := x.hget(h, k)
		for _, loc := range locs[k] {
			fresh := x.freshConst("Hshared!"+cleanKey(k), strings.TrimSuffix(strings.TrimPrefix(x.keys[k], "(Array Int "), ")"))
			cur = app("store", cur, loc, fresh)
		}
		h = x.hset(h, k, cur)
	}
	return x.bumpEpoch(h)
}

func (x *Enc) locsOf(c *Contract, list []string, tag string, params map[string]Val, h Heap) (map[string]bool, map[string][]Term, bool) {
	keys := map[string]bool{}
	locs := map[string][]Term{}
	for i, m := range list {
		if m == "everything" {
			return keys, locs, true
		}
		ci := x.eng.synDecls[fmt.Sprintf("%s#%s%d", c.CalleeKey, tag, i)]
		if ci == nil || ci.decl == nil || ci.decl.Body == nil {
			x.note("modifies clause not resolved: " + m)
			return keys, locs, true
		}
		env := x.newSpecEnv(ci, params, h, h)
		ex := modExpr(ci)
		ptr, t, ok := x.evalAddr(env, ex)
		if !ok {
			x.note("modifies clause is not a location: " + m)
			return keys, locs, true
		}
		whole := strings.HasPrefix(m, "all(")
		if ptr.fp != nil {
			for _, l := range leaves(t) {
				k := ptr.fp.key + l.Path
				x.regKey(k, x.keySortFor(ptr.fp, l))
				if whole {
					keys[k] = true
				} else {
					locs[k] = append(locs[k], ptr.fp.base)
				}
			}
		} else {
			for _, k := range x.keysOfAlloc(t) {
				if _, ok := x.keys[k]; !ok {
					continue
				}
				if whole {
					keys[k] = true
				} else {
					locs[k] = append(locs[k], ptr.ts[0])
				}
			}
		}
	}
	return keys, locs, false
}

func (x *Enc) keySortFor(fp *fieldPtr, l Leaf) string {
	if fp.kind == 2 {
		return "(Array Int " + heapSort(l.Sort) + ")"
	}
	return heapSort(l.Sort)
}

func (x *Enc) newFrame(fn *ssa.Function, prefix string, depth int, con *Contract) *frame {
	fr := &frame{x: x, fn: fn, prefix: prefix, vals: map[ssa.Value]Val{}, reach: map[*ssa.BasicBlock]Term{}, heapOut: map[*ssa.BasicBlock]Heap{},
		heapIn: map[*ssa.BasicBlock]Heap{}, depth: depth, con: con, params: map[string]Val{}, ptypes: map[string]types.Type{},
		backEdge: map[[2]*ssa.BasicBlock]bool{}, headers: map[*ssa.BasicBlock]int{}, pure: map[string]bool{}}
	if con != nil {
		for _, p := range con.PureParams {
			fr.pure[p] = true
		}
	}
	return fr
}

// paramVals builds the environment for a clause: names -> values (params then results).
func (fr *frame) paramVals(names []string, results []Val) map[string]Val {
	m := map[string]Val{}
	np := len(fr.fn.Params)
	nfree := 0
	if fr.con != nil && fr.con.IsClosure && fr.depth == 0 {
		nfree = len(fr.con.FreeVarNames) // captured variables are bound through x.topDerefs / fr.params
	}
	for i, n := range names {
		if i < np {
			m[n] = fr.vals[fr.fn.Params[i]]
		} else if i < np+nfree {
			if v, ok := fr.params[n]; ok {
				m[n] = v
			}
		} else if results != nil && i-np-nfree < len(results) {
			m[n] = results[i-np-nfree]
		}
	}
	return m
}

// ---- control flow ---------------------------------------------------------

func (fr *frame) order() []*ssa.BasicBlock {
	// reverse postorder over forward edges
	fn := fr.fn
	for _, b := range fn.Blocks {
		for _, s := range b.Succs {
			if s.Dominates(b) {
				fr.backEdge[[2]*ssa.BasicBlock{b, s}] = true
			}
		}
	}
	var hs []*ssa.BasicBlock
	seenH := map[*ssa.BasicBlock]bool{}
	for e := range fr.backEdge {
		if !seenH[e[1]] {
			seenH[e[1]] = true
			hs = append(hs, e[1])
		}
	}
	// loop ordinals in source order of the header's first instruction position (fallback block index)
	sort.Slice(hs, func(i, j int) bool { return loopLess(hs[i], hs[j]) })
	for i, h := range hs {
		fr.headers[h] = i
	}
	// loops of the top function and of the anonymous functions nested in it share one numbering
	// (source order), so that invariants for loops inside inlined closures can be given in the contract
	if nestedIn(fn, fr.x.top) {
		ord := fr.x.globalLoopOrdinals()
		for _, h := range hs {
			if k, ok := ord[h]; ok {
				fr.headers[h] = k
			}
		}
	}
	var post []*ssa.BasicBlock
	seen := map[*ssa.BasicBlock]bool{}
	var dfs func(b *ssa.BasicBlock)
	dfs = func(b *ssa.BasicBlock) {
		seen[b] = true
		for _, s := range b.Succs {
			if fr.backEdge[[2]*ssa.BasicBlock{b, s}] || seen[s] {
				continue
			}
			dfs(s)
		}
		post = append(post, b)
	}
	if len(fn.Blocks) > 0 {
		dfs(fn.Blocks[0])
	}
	if fn.Recover != nil && !seen[fn.Recover] {
		// recover block unreachable in our model
	}
	for i, j := 0, len(post)-1; i < j; i, j = i+1, j-1 {
		post[i], post[j] = post[j], post[i]
	}
	return post
}

func nestedIn(fn, top *ssa.Function) bool {
	for f := fn; f != nil; f = f.Parent() {
		if f == top {
			return true
		}
	}
	return false
}

func (x *Enc) globalLoopOrdinals() map[*ssa.BasicBlock]int {
	if x.loopOrd != nil {
		return x.loopOrd
	}
	var hs []*ssa.BasicBlock
	var walk func(f *ssa.Function)
	walk = func(f *ssa.Function) {
		seen := map[*ssa.BasicBlock]bool{}
		for _, b := range f.Blocks {
			for _, s := range b.Succs {
				if s.Dominates(b) && !seen[s] {
					seen[s] = true
					hs = append(hs, s)
				}
			}
		}
		for _, a := range f.AnonFuncs {
			walk(a)
		}
	}
	walk(x.top)
	sort.Slice(hs, func(i, j int) bool { return loopLess(hs[i], hs[j]) })
	x.loopOrd = map[*ssa.BasicBlock]int{}
	for i, h := range hs {
		x.loopOrd[h] = i
	}
	return x.loopOrd
}

// naturalLoop: the blocks of the natural loop with header h.
func naturalLoop(h *ssa.BasicBlock) map[*ssa.BasicBlock]bool {
	body := map[*ssa.BasicBlock]bool{h: true}
	var stack []*ssa.BasicBlock
	for _, p := range h.Preds {
		if h.Dominates(p) && !body[p] {
			body[p] = true
			stack = append(stack, p)
		}
	}
	for len(stack) > 0 {
		b := stack[len(stack)-1]
		stack = stack[:len(stack)-1]
		for _, p := range b.Preds {
			if !body[p] {
				body[p] = true
				stack = append(stack, p)
			}
		}
	}
	return body
}

var loopKeyCache = map[*ssa.BasicBlock][2]int{}

// loopLess orders loops in source order: by the smallest source position inside the loop, outer loops
// (more blocks) before the loops nested in them; loops of different functions by function position.
func loopLess(a, b *ssa.BasicBlock) bool {
	ka, kb := loopKey(a), loopKey(b)
	if ka[0] != kb[0] {
		return ka[0] < kb[0]
	}
	if ka[1] != kb[1] {
		return ka[1] > kb[1]
	}
	return a.Index < b.Index
}

func loopKey(h *ssa.BasicBlock) [2]int {
	if k, ok := loopKeyCache[h]; ok {
		return k
	}
	body := naturalLoop(h)
	best := 0
	for b := range body {
		for _, in := range b.Instrs {
			p := in.Pos()
			if d, ok := in.(*ssa.DebugRef); ok {
				p = d.Expr.Pos()
			}
			if p.IsValid() && (best == 0 || int(p) < best) {
				best = int(p)
			}
		}
	}
	k := [2]int{best, len(body)}
	loopKeyCache[h] = k
	return k
}

func loopPos(h *ssa.BasicBlock) token.Pos {
	// the smallest valid position among the header's instructions and its back-edge sources
	best := token.Pos(0)
	upd := func(p token.Pos) {
		if p.IsValid() && (best == 0 || p < best) {
			best = p
		}
	}
	scan := func(b *ssa.BasicBlock) {
		for _, in := range b.Instrs {
			upd(in.Pos())
			if d, ok := in.(*ssa.DebugRef); ok {
				upd(d.Expr.Pos())
			}
		}
	}
	scan(h)
	if best == 0 {
		// compiler-generated headers (range loops) carry no positions: use the blocks of the loop body,
		// i.e. the successors of the header that the header dominates and that reach back to it
		for _, s := range h.Succs {
			if h.Dominates(s) && s != h {
				scan(s)
				if best != 0 {
					break
				}
			}
		}
	}
	return best
}

func (fr *frame) name(v ssa.Value) string {
	return fr.prefix + "!" + v.Name()
}

// bind names the leaves of a computed value as constants of the script.
func (fr *frame) bind(v ssa.Value, val Val) {
	x := fr.x
	if val.fp != nil || val.clo != nil && len(val.ts) == 0 {
		fr.vals[v] = val
		return
	}
	ls := leaves(v.Type())
	if len(ls) != len(val.ts) {
		panic(fmt.Sprintf("bind %s: %d leaves for type %s, got %d terms (%T)", v.Name(), len(ls), v.Type(), len(val.ts), v))
	}
	out := Val{ts: make([]Term, len(ls)), clo: val.clo}
	for i, l := range ls {
		if isSimple(val.ts[i]) {
			out.ts[i] = val.ts[i]
			continue
		}
		n := sym(fr.name(v) + l.Path)
		x.sc.declConst(n, l.Sort.String())
		x.sc.assert(eq(n, val.ts[i]))
		out.ts[i] = n
	}
	fr.vals[v] = out
}

func isSimple(t Term) bool {
	return !strings.ContainsAny(t, " (")
}

func (fr *frame) get(v ssa.Value) Val {
	x := fr.x
	switch v := v.(type) {
	case *ssa.Const:
		return x.constVal(v)
	case *ssa.Global:
		return Val{ts: []Term{x.globalAddr(v.String())}}
	case *ssa.Function:
		n := sym("fn!" + v.String())
		x.sc.declConst(n, "Int")
		x.sc.assert(app(">", n, "0"))
		return Val{ts: []Term{n}, clo: &closureInfo{fn: v}}
	case *ssa.Builtin:
		return Val{ts: []Term{"0"}}
	}
	if val, ok := fr.vals[v]; ok {
		return val
	}
	// value defined in a block not yet encoded (should not happen in RPO of reducible CFG)
	x.note("use of undefined value " + v.Name() + " in " + fr.fn.String())
	val := x.freshVal("undef_"+v.Name(), v.Type())
	fr.vals[v] = val
	return val
}

// globalAddr: the address of a package-level variable: positive, and allocated before the call.
func (x *Enc) globalAddr(name string) Term {
	n := sym("glob!" + name)
	if _, ok := x.sc.decls[n]; !ok {
		x.sc.declConst(n, "Int")
		x.regKey(keyAlloc, "Int")
		x.sc.assert(and(app(">", n, "0"), app("<=", n, x.hget(Heap{base: "0", m: map[string]Term{}}, keyAlloc))))
	}
	return n
}

func (x *Enc) constVal(c *ssa.Const) Val {
	t := c.Type()
	if c.Value == nil {
		return zeroVal(t)
	}
	return x.constantVal(c.Value, t)
}

func (x *Enc) constantVal(cv constant.Value, t types.Type) Val {
	switch cv.Kind() {
	case constant.Bool:
		if constant.BoolVal(cv) {
			return Val{ts: []Term{"true"}}
		}
		return Val{ts: []Term{"false"}}
	case constant.Int:
		bi, ok := new(bigIntT).SetString(cv.ExactString(), 10)
		if !ok {
			return Val{ts: []Term{"0"}}
		}
		return Val{ts: []Term{bigNum(bi)}}
	case constant.String:
		return Val{ts: []Term{x.strConst(constant.StringVal(cv))}}
	case constant.Float:
		// floats are opaque integers scaled: only constants 0 supported exactly
		f, _ := constant.Float64Val(cv)
		if f == float64(int64(f)) {
			return Val{ts: []Term{num(int64(f))}}
		}
		x.note("non-integral float constant treated as opaque")
		return Val{ts: []Term{x.freshConst("float", "Int")}}
	}
	return zeroVal(t)
}

func (x *Enc) strConst(s string) Term {
	if t, ok := x.strs[s]; ok {
		return t
	}
	if s == "" {
		x.strs[s] = "0"
		return "0"
	}
	n := sym(fmt.Sprintf("str!%d", len(x.strs)+1))
	x.sc.declConst(n, "Int")
	x.sc.assert(eq(app("strlen", n), num(int64(len(s)))))
	for _, o := range sortedKeys(x.strs) {
		if x.strs[o] != "0" {
			x.sc.assert(not(eq(n, x.strs[o])))
		}
	}
	x.sc.assert(not(eq(n, "0")))
	x.strs[s] = n
	return n
}

// encode runs the block encoder for the frame's function.
func (fr *frame) encode(reach0 Term, h0 Heap) {
	x := fr.x
	fn := fr.fn
	if len(fn.Blocks) == 0 {
		x.note("function without body: " + fn.String())
		return
	}
	saved := x.curPrefix
	x.curPrefix = fr.prefix
	defer func() { x.curPrefix = saved }()
	blocks := fr.order()
	for _, b := range blocks {
		var reach Term
		var hin Heap
		_, isHeader := fr.headers[b]
		if b == fn.Blocks[0] {
			reach = reach0
			hin = h0
		} else {
			var edges []Term
			var hs []Heap
			var ps []*ssa.BasicBlock
			for _, p := range b.Preds {
				if fr.backEdge[[2]*ssa.BasicBlock{p, b}] {
					continue
				}
				if _, ok := fr.reach[p]; !ok {
					continue // unreachable predecessor (e.g. recover block)
				}
				edges = append(edges, fr.edgeTerm(p, b))
				hs = append(hs, fr.heapOut[p])
				ps = append(ps, p)
			}
			rn := sym(fmt.Sprintf("%s!R%d", fr.prefix, b.Index))
			x.sc.declConst(rn, "Bool")
			x.sc.assert(eq(rn, or(edges...)))
			reach = rn
			hin = x.mergeHeaps(fr, b, edges, hs)
			if isHeader {
				hin = fr.loopHeader(b, reach, hin, ps, edges)
			} else {
				for _, in := range b.Instrs {
					phi, ok := in.(*ssa.Phi)
					if !ok {
						break
					}
					fr.encodePhi(phi, b, ps, edges)
				}
			}
		}
		fr.reach[b] = reach
		fr.heapIn[b] = hin
		h := hin
		for _, in := range b.Instrs {
			if _, ok := in.(*ssa.Phi); ok {
				continue
			}
			h = fr.instr(b, in, reach, h)
			if fr.narrow != "" {
				// an inlined callee with cut loops: execution continues only on the paths that returned
				rn := x.freshConst(fmt.Sprintf("R%d_cont", b.Index), "Bool")
				x.sc.assert(eq(rn, and(reach, fr.narrow)))
				reach = rn
				fr.reach[b] = reach
				fr.narrow = ""
			}
		}
		fr.heapOut[b] = h
		// back edges out of b: invariant obligations
		for _, s := range b.Succs {
			if fr.backEdge[[2]*ssa.BasicBlock{b, s}] {
				fr.backEdgeObligations(b, s, h)
			}
		}
	}
}

func (fr *frame) edgeTerm(p, b *ssa.BasicBlock) Term {
	r := fr.reach[p]
	last := p.Instrs[len(p.Instrs)-1]
	if iff, ok := last.(*ssa.If); ok {
		c := fr.get(iff.Cond).ts[0]
		if p.Succs[0] == b && p.Succs[1] == b {
			return r
		}
		if p.Succs[0] == b {
			return and(r, c)
		}
		return and(r, not(c))
	}
	return r
}

func (x *Enc) mergeHeaps(fr *frame, b *ssa.BasicBlock, edges []Term, hs []Heap) Heap {
	if len(hs) == 0 {
		return Heap{base: "dead", m: map[string]Term{}}
	}
	if len(hs) == 1 {
		return hs[0]
	}
	out := Heap{base: hs[0].base, m: map[string]Term{}}
	sameBase := true
	for _, h := range hs[1:] {
		if h.base != hs[0].base {
			sameBase = false
		}
	}
	if !sameBase {
		x.nfresh++
		out.base = fmt.Sprintf("%s_j%d_%d", fr.prefix, b.Index, x.nfresh)
	}
	for _, k := range sortedKeys(x.keys) {
		first := x.hget(hs[0], k)
		same := true
		for _, h := range hs[1:] {
			if x.hget(h, k) != first {
				same = false
				break
			}
		}
		if same {
			if sameBase {
				if t, ok := hs[0].m[k]; ok {
					out.m[k] = t
				}
			} else {
				out.m[k] = first
			}
			continue
		}
		n := x.freshConst(fmt.Sprintf("Hj%d!%s", b.Index, cleanKey(k)), x.keys[k])
		for i, h := range hs {
			x.sc.assert(implies(edges[i], eq(n, x.hget(h, k))))
		}
		out.m[k] = n
	}
	return out
}

func (fr *frame) encodePhi(phi *ssa.Phi, b *ssa.BasicBlock, ps []*ssa.BasicBlock, edges []Term) {
	x := fr.x
	ls := leaves(phi.Type())
	out := Val{ts: make([]Term, len(ls))}
	for i, l := range ls {
		n := sym(fr.name(phi) + l.Path)
		x.sc.declConst(n, l.Sort.String())
		out.ts[i] = n
	}
	for k, p := range ps {
		// operand index of pred p
		for j, q := range b.Preds {
			if q == p {
				v := fr.get(phi.Edges[j])
				if v.fp != nil {
					x.note("phi over engine-level pointer")
					continue
				}
				for i := range ls {
					x.sc.assert(implies(edges[k], eq(out.ts[i], v.ts[i])))
				}
			}
		}
	}
	fr.vals[phi] = out
}

func headerID(fr *frame, b *ssa.BasicBlock) string {
	return fmt.Sprintf("%s#%d", fr.prefix, b.Index)
}

// loopVarEnv maps invariant variable names to the values they have on an edge into the header
// (edgeFrom != nil) or at the header itself (phi constants).
func (fr *frame) loopVarEnv(h *ssa.BasicBlock, edgeFrom *ssa.BasicBlock, names []string) map[string]Val {
	return fr.loopVarEnvAt(h, edgeFrom, nil, names)
}

// loopVarEnvAt: as loopVarEnv; locals that are not loop-carried are looked up in the blocks dominating `at`
// (inclusive) when at != nil, else in those strictly dominating the header.
func (fr *frame) loopVarEnvAt(h *ssa.BasicBlock, edgeFrom *ssa.BasicBlock, at *ssa.BasicBlock, names []string) map[string]Val {
	env := map[string]Val{}
	for k, v := range fr.params {
		env[k] = v
	}
	want := map[string]bool{}
	for _, n := range names {
		if _, captured := fr.x.topDerefs[n]; captured && fr.depth == 0 {
			continue // captured variables denote the current content of their cell, not an SSA value
		}
		want[n] = true
	}
	for _, in := range h.Instrs {
		phi, ok := in.(*ssa.Phi)
		if !ok {
			break
		}
		n := phi.Comment
		if _, isParam := fr.params[n]; !want[n] && !(isParam && fr.depth == 0) {
			// (a parameter that the loop reassigns denotes its current value in loop clauses; old(p) is its entry value)
			continue
		}
		if edgeFrom == nil {
			env[n] = fr.vals[phi]
		} else {
			for j, q := range h.Preds {
				if q == edgeFrom {
					env[n] = fr.get(phi.Edges[j])
				}
			}
		}
	}
	// non-loop-carried locals: find by DebugRef in dominating blocks
	for n := range want {
		if _, ok := env[n]; ok {
			continue
		}
		if at != nil {
			if v := fr.findLocalIn(at, n, true); v != nil {
				env[n] = fr.get(v)
			}
			continue
		}
		if v := fr.findLocal(h, n); v != nil {
			env[n] = fr.get(v)
		}
	}
	// locals that live in a heap cell (captured by a function literal): the name denotes the cell's content
	for n := range want {
		if _, ok := env[n]; ok {
			continue
		}
		if a := fr.findCellLocal(n); a != nil {
			if av, bound := fr.vals[a]; bound && av.fp == nil && len(av.ts) == 1 {
				env[n] = Val{ts: av.ts, cellOf: derefType(a.Type())}
			}
		}
	}
	return env
}

// findCellLocal: the allocation of the source variable `name` when the variable is address-taken (its DebugRefs are
// address references), nil otherwise or when two different cells carry the name.
func (fr *frame) findCellLocal(name string) *ssa.Alloc {
	var found *ssa.Alloc
	for _, blk := range fr.fn.Blocks {
		for _, in := range blk.Instrs {
			d, ok := in.(*ssa.DebugRef)
			if !ok || !d.IsAddr {
				continue
			}
			if id := d.Object(); id == nil || id.Name() != name {
				continue
			}
			a, isAlloc := d.X.(*ssa.Alloc)
			if !isAlloc {
				continue
			}
			if found != nil && found != a {
				return nil
			}
			found = a
		}
	}
	return found
}

func (fr *frame) findLocalIn(b *ssa.BasicBlock, name string, inclusive bool) ssa.Value {
	var best ssa.Value
	for _, blk := range fr.fn.Blocks {
		if !blk.Dominates(b) || (blk == b && !inclusive) {
			continue
		}
		for _, in := range blk.Instrs {
			if d, ok := in.(*ssa.DebugRef); ok && !d.IsAddr {
				if id := d.Object(); id != nil && id.Name() == name {
					if _, isVal := fr.vals[d.X]; isVal || isConstLike(d.X) {
						best = d.X
					}
				}
			}
		}
	}
	return best
}

func isConstLike(v ssa.Value) bool {
	switch v.(type) {
	case *ssa.Const, *ssa.Global, *ssa.Function:
		return true
	}
	return false
}

// findLocal finds the SSA value of source variable `name` that is live at block b and not loop-carried.
func (fr *frame) findLocal(b *ssa.BasicBlock, name string) ssa.Value {
	var best, zero ssa.Value
	for _, blk := range fr.fn.Blocks {
		if !(blk.Dominates(b)) || blk == b {
			continue
		}
		for _, in := range blk.Instrs {
			// a merge of two definitions of the variable (if/else before the loop) carries no DebugRef of its own:
			// from there on the phi is the variable's value
			if phi, isPhi := in.(*ssa.Phi); isPhi && phi.Comment == name {
				if _, isVal := fr.vals[phi]; isVal {
					best = phi
				}
				continue
			}
			if d, ok := in.(*ssa.DebugRef); ok && !d.IsAddr {
				if id := d.Object(); id != nil && id.Name() == name {
					if c, isC := d.X.(*ssa.Const); isC && c.Value == nil {
						// `x := T{...}` records the zero value at the definition and the built value at the uses
						zero, best = d.X, nil
						continue
					}
					best = d.X
				}
			}
		}
	}
	if best != nil {
		return best
	}
	// a use further on (in or after the loop) of a value computed before the header: the variable is not
	// loop-carried (no phi), so that value is the variable's value at the header
	for _, blk := range fr.fn.Blocks {
		if !b.Dominates(blk) {
			continue
		}
		for _, in := range blk.Instrs {
			if d, ok := in.(*ssa.DebugRef); ok && !d.IsAddr {
				if id := d.Object(); id != nil && id.Name() == name {
					if def, isI := d.X.(ssa.Instruction); isI && def.Block() != b && def.Block().Dominates(b) {
						return d.X
					}
				}
			}
		}
	}
	return zero
}

func (fr *frame) invariantsOf(h *ssa.BasicBlock) []*Clause {
	if fr.con == nil {
		return nil
	}
	ord := fr.headers[h]
	var out []*Clause
	for _, c := range fr.con.Invariants {
		if c.Loop == ord && c.Kind == "invariant" {
			if p, only := fr.con.PropOnly[c.Label]; only && p != fr.x.prop {
				continue // restrict PROP: this clause belongs to another property's claim
			}
			out = append(out, c)
		}
	}
	return out
}

// autoFrameInv: the function's frame condition as an implicit loop invariant, for the keys the loop modifies:
// every object that existed at entry and is not named by the modifies clause still has its entry value.
func (fr *frame) autoFrameInv(h *ssa.BasicBlock, heap Heap) Term {
	x := fr.x
	if fr.depth != 0 || fr.con == nil || fr.con.NoFrame {
		return "true"
	}
	mods := x.loopMods[headerID(fr, h)]
	if len(mods) == 0 {
		return "true"
	}
	modKeys, modLocs, all := x.modifiesOf(fr.con, fr.paramVals(fr.con.SynParams, nil), fr.entry)
	if all {
		return "true"
	}
	var cs []Term
	for _, k := range sortedKeys(mods) {
		if strings.HasPrefix(k, "$") || modKeys[k] {
			continue
		}
		if _, ok := x.keys[k]; !ok {
			continue
		}
		a, b := x.hget(heap, k), x.hget(fr.entry, k)
		if a == b {
			continue
		}
		var except []Term
		for _, l := range modLocs[k] {
			except = append(except, not(eq("p!", l)))
		}
		cs = append(cs, fmt.Sprintf("(forall ((p! Int)) (! (=> %s (= (select %s p!) (select %s p!))) :pattern ((select %s p!))))",
			and(append([]Term{app("<=", "p!", x.hget(fr.entry, keyAlloc)), app(">", "p!", "0")}, except...)...), a, b, a))
	}
	return and(cs...)
}

// newLoopEnv: environment of a loop clause; old(x) of a reassigned parameter x denotes its value at function entry.
func (x *Enc) newLoopEnv(fr *frame, ci *clauseInfo, vars map[string]Val, heap, old Heap) *specEnv {
	env := x.newSpecEnv(ci, vars, heap, old)
	env.entryVars = fr.params
	return env
}

// stepsOf: two-state clauses relating the state at the loop header (prev) to the state at a back edge.
func (fr *frame) stepsOf(h *ssa.BasicBlock) []*Clause {
	if fr.con == nil {
		return nil
	}
	ord := fr.headers[h]
	var out []*Clause
	for _, c := range fr.con.Invariants {
		if c.Loop == ord && c.Kind == "step" {
			if p, only := fr.con.PropOnly[c.Label]; only && p != fr.x.prop {
				continue
			}
			out = append(out, c)
		}
	}
	return out
}

func (fr *frame) loopHeader(b *ssa.BasicBlock, reach Term, hin Heap, ps []*ssa.BasicBlock, edges []Term) Heap {
	x := fr.x
	invs := fr.invariantsOf(b)
	// obligations: invariant holds on entry edges
	for k, p := range ps {
		for _, c := range invs {
			ci := x.eng.clauses[c]
			env := x.newLoopEnv(fr, ci, fr.loopVarEnv(b, p, ci.params), fr.heapOut[p], fr.entry)
			goal := x.evalBool(env, clauseExpr(ci))
			x.addObl("invariant", fmt.Sprintf("%s.%s.entry", shortFn(fr.fn), c.Label), c.Text, loopPos(b), edges[k], goal)
		}
	}
	// havoc loop targets
	for _, in := range b.Instrs {
		phi, ok := in.(*ssa.Phi)
		if !ok {
			break
		}
		v := x.freshValNamed(fr.name(phi), phi.Type())
		fr.vals[phi] = v
		x.sc.assert(implies(reach, x.typeFacts(phi.Type(), v, Heap{})))
	}
	id := headerID(fr, b)
	mods := x.loopMods[id]
	h := hin
	if len(mods) > 0 {
		nm := map[string]Term{}
		for k, v := range hin.m {
			nm[k] = v
		}
		h = Heap{base: hin.base, m: nm}
		for _, k := range sortedKeys(mods) {
			if _, ok := x.keys[k]; !ok {
				continue
			}
			n := x.freshConst(fmt.Sprintf("Hloop%d!%s", b.Index, cleanKey(k)), x.keys[k])
			h.m[k] = n
			if k == keyAlloc {
				x.sc.assert(implies(reach, app(">=", n, x.hget(hin, keyAlloc))))
			}
		}
	}
	// cells of captured variables that the loop never assigns (no store to them, no closure created in the loop
	// that captures them) keep their content across the loop, whatever the callees in the loop do
	if fr.depth == 0 && len(mods) > 0 {
		body := naturalLoop(b)
		for _, fv := range fr.fn.FreeVars {
			pt, isPtr := fv.Type().Underlying().(*types.Pointer)
			if !isPtr {
				continue
			}
			assigned := false
			for blk := range body {
				for _, in := range blk.Instrs {
					switch in := in.(type) {
					case *ssa.Store:
						if in.Addr == ssa.Value(fv) {
							assigned = true
						}
					case *ssa.MakeClosure:
						for _, bv := range in.Bindings {
							if bv == ssa.Value(fv) {
								assigned = true
							}
						}
					}
				}
			}
			if assigned {
				continue
			}
			p := fr.vals[fv].ts[0]
			for _, k := range x.keysOfAlloc(pt.Elem()) {
				if !mods[k] {
					continue
				}
				if _, ok := x.keys[k]; !ok {
					continue
				}
				x.sc.assertC(implies(reach, eq(app("select", x.hget(h, k), p), app("select", x.hget(hin, k), p))), "captured variable "+fv.Name()+" is not assigned in the loop")
			}
		}
	}
	// non-escaping local allocations of this function that the loop never stores to keep their content
	if len(mods) > 0 {
		body := naturalLoop(b)
		for _, la := range x.localAllocs {
			if la.alloc == nil || la.alloc.Parent() != fr.fn || body[la.alloc.Block()] || storedIn(body, la.alloc) || capturedByClosure(la.alloc) {
				continue
			}
			for _, k := range la.keys {
				if !mods[k] {
					continue
				}
				if _, ok := x.keys[k]; !ok {
					continue
				}
				x.sc.assertC(implies(reach, eq(app("select", x.hget(h, k), la.ref), app("select", x.hget(hin, k), la.ref))), "local variable "+la.alloc.Comment+" is not assigned in the loop")
			}
		}
	}
	// pointer phis are bounded by the (new) allocation top
	for _, in := range b.Instrs {
		phi, ok := in.(*ssa.Phi)
		if !ok {
			break
		}
		x.sc.assert(implies(reach, x.typeFacts(phi.Type(), fr.vals[phi], h)))
	}
	// compiler-generated range loops: the hidden index satisfies -1 <= idx < len (len is evaluated once,
	// before the loop; the index starts at -1 and is incremented only while idx+1 < len)
	for _, in := range b.Instrs {
		phi, ok := in.(*ssa.Phi)
		if !ok {
			break
		}
		if phi.Comment != "rangeindex" || phi.Referrers() == nil {
			continue
		}
		for _, r := range *phi.Referrers() {
			inc, ok := r.(*ssa.BinOp)
			if !ok || inc.Op != token.ADD || inc.Referrers() == nil {
				continue
			}
			for _, r2 := range *inc.Referrers() {
				cmp, ok := r2.(*ssa.BinOp)
				if !ok || cmp.Op != token.LSS || cmp.X != inc {
					continue
				}
				if _, known := fr.vals[cmp.Y]; known || isConstLike(cmp.Y) {
					ln := fr.get(cmp.Y).ts[0]
					idx := fr.vals[phi].ts[0]
					x.sc.assertC(implies(reach, and(app("<=", "(- 1)", idx), app("<", idx, ln))), "range-loop index bounds")
				}
			}
		}
	}
	// implicit frame invariant: obligation on the entry edges, assumption at the header
	for k, p := range ps {
		if t := fr.autoFrameInv(b, fr.heapOut[p]); t != "true" {
			x.addObl("frame", fmt.Sprintf("%s.loop%d_frame.entry", shortFn(fr.fn), fr.headers[b]), "frame condition holds on loop entry", loopPos(b), edges[k], t)
		}
	}
	x.sc.assertC(implies(reach, fr.autoFrameInv(b, h)), "assume implicit frame invariant of the loop")
	// assume invariants
	for _, c := range invs {
		ci := x.eng.clauses[c]
		env := x.newLoopEnv(fr, ci, fr.loopVarEnv(b, nil, ci.params), h, fr.entry)
		x.sc.assertC(implies(reach, x.evalBool(env, clauseExpr(ci))), "assume invariant "+c.Text)
	}
	return h
}

// capturedByClosure: the variable is captured by a function literal (whose body may assign it when called).
func capturedByClosure(a *ssa.Alloc) bool {
	if a.Referrers() == nil {
		return false
	}
	for _, r := range *a.Referrers() {
		if _, ok := r.(*ssa.MakeClosure); ok {
			return true
		}
	}
	return false
}

// storedIn: some store in the given blocks writes through an address rooted at the allocation.
func storedIn(body map[*ssa.BasicBlock]bool, a *ssa.Alloc) bool {
	for blk := range body {
		for _, in := range blk.Instrs {
			st, ok := in.(*ssa.Store)
			if !ok {
				continue
			}
			v := st.Addr
			for v != nil {
				if v == ssa.Value(a) {
					return true
				}
				switch w := v.(type) {
				case *ssa.FieldAddr:
					v = w.X
				case *ssa.IndexAddr:
					v = w.X
				default:
					v = nil
				}
			}
		}
	}
	return false
}

func (x *Enc) freshValNamed(name string, t types.Type) Val {
	ls := leaves(t)
	v := Val{ts: make([]Term, len(ls))}
	for i, l := range ls {
		n := sym(name + l.Path)
		x.sc.declConst(n, l.Sort.String())
		v.ts[i] = n
	}
	return v
}

func (fr *frame) backEdgeObligations(from, h *ssa.BasicBlock, heap Heap) {
	x := fr.x
	edge := fr.edgeTerm(from, h)
	for _, c := range fr.invariantsOf(h) {
		ci := x.eng.clauses[c]
		env := x.newLoopEnv(fr, ci, fr.loopVarEnv(h, from, ci.params), heap, fr.entry)
		goal := x.evalBool(env, clauseExpr(ci))
		x.addObl("invariant", fmt.Sprintf("%s.%s.preserved", shortFn(fr.fn), c.Label), c.Text, loopPos(h), edge, goal)
	}
	if t := fr.autoFrameInv(h, heap); t != "true" {
		x.addObl("frame", fmt.Sprintf("%s.loop%d_frame.preserved", shortFn(fr.fn), fr.headers[h]), "frame condition preserved by the loop body", loopPos(h), edge, t)
	}
	for _, c := range fr.stepsOf(h) {
		ci := x.eng.clauses[c]
		env := x.newLoopEnv(fr, ci, fr.loopVarEnvAt(h, from, from, ci.params), heap, fr.entry)
		env.prev = fr.heapIn[h]
		env.prevVars = fr.loopVarEnv(h, nil, ci.params)
		goal := x.evalBool(env, clauseExpr(ci))
		x.addObl("step", fmt.Sprintf("%s.%s", shortFn(fr.fn), c.Label), c.Text, loopPos(h), edge, goal)
	}
	// record which keys the loop body modified
	id := headerID(fr, h)
	hh := fr.heapIn[h]
	for _, k := range sortedKeys(x.keys) {
		if x.hget(heap, k) != x.hget(hh, k) {
			if x.loopMods[id] == nil {
				x.loopMods[id] = map[string]bool{}
			}
			if !x.loopMods[id][k] {
				x.loopMods[id][k] = true
				x.changed = true
			}
		}
	}
}
