package main

import (
	"fmt"
	"math/big"
	"sort"
	"strings"
)

// Term is SMT-LIB 2 text.
type Term = string

type Sort int

const (
	SInt Sort = iota
	SBool
	SArr  // (Array Int Int)
	SArrB // (Array Int Bool)
)

func (s Sort) String() string {
	switch s {
	case SInt:
		return "Int"
	case SBool:
		return "Bool"
	case SArr:
		return "(Array Int Int)"
	case SArrB:
		return "(Array Int Bool)"
	}
	return "?"
}

// heap sort for a leaf sort: Ref -> leaf
func heapSort(s Sort) string { return "(Array Int " + s.String() + ")" }

func app(f string, args ...Term) Term {
	if len(args) == 0 {
		return f
	}
	return "(" + f + " " + strings.Join(args, " ") + ")"
}

func and(ts ...Term) Term {
	var xs []Term
	for _, t := range ts {
		if t == "true" {
			continue
		}
		if t == "false" {
			return "false"
		}
		xs = append(xs, t)
	}
	if len(xs) == 0 {
		return "true"
	}
	if len(xs) == 1 {
		return xs[0]
	}
	return app("and", xs...)
}

func or(ts ...Term) Term {
	var xs []Term
	for _, t := range ts {
		if t == "false" {
			continue
		}
		if t == "true" {
			return "true"
		}
		xs = append(xs, t)
	}
	if len(xs) == 0 {
		return "false"
	}
	if len(xs) == 1 {
		return xs[0]
	}
	return app("or", xs...)
}

func not(t Term) Term {
	if t == "true" {
		return "false"
	}
	if t == "false" {
		return "true"
	}
	if strings.HasPrefix(t, "(not ") && balanced(t[5:len(t)-1]) {
		return t[5 : len(t)-1]
	}
	return app("not", t)
}

func balanced(s string) bool {
	d := 0
	for i := 0; i < len(s); i++ {
		switch s[i] {
		case '(':
			d++
		case ')':
			d--
			if d < 0 {
				return false
			}
		case ' ':
			if d == 0 {
				return false
			}
		}
	}
	return d == 0
}

func implies(a, b Term) Term {
	if a == "true" {
		return b
	}
	if a == "false" || b == "true" {
		return "true"
	}
	return app("=>", a, b)
}

func eq(a, b Term) Term {
	if a == b {
		return "true"
	}
	return app("=", a, b)
}

func ite(c, a, b Term) Term {
	if c == "true" {
		return a
	}
	if c == "false" {
		return b
	}
	if a == b {
		return a
	}
	return app("ite", c, a, b)
}

func num(n int64) Term {
	if n < 0 {
		return fmt.Sprintf("(- %d)", -n)
	}
	return fmt.Sprintf("%d", n)
}

func bigNum(n *big.Int) Term {
	if n.Sign() < 0 {
		return "(- " + new(big.Int).Neg(n).String() + ")"
	}
	return n.String()
}

func pow2(k int) *big.Int { return new(big.Int).Lsh(big.NewInt(1), uint(k)) }

// symbol quoting
func sym(s string) string {
	ok := true
	for _, r := range s {
		if !(r >= 'a' && r <= 'z' || r >= 'A' && r <= 'Z' || r >= '0' && r <= '9' || strings.ContainsRune("_.!$%&*+-/<=>?@^~", r)) {
			ok = false
			break
		}
	}
	if ok && s != "" && !(s[0] >= '0' && s[0] <= '9') {
		return s
	}
	s = strings.ReplaceAll(s, "|", "!")
	s = strings.ReplaceAll(s, "\\", "!")
	return "|" + s + "|"
}

// Script is the shared prelude of one function's verification conditions.
type Script struct {
	declOrder []string
	decls     map[string]string // name -> full decl text
	asserts   []string
	comments  map[int]string
	raw       string // complete script (lemma files)
}

func newScript() *Script {
	return &Script{decls: map[string]string{}, comments: map[int]string{}}
}

func (s *Script) declConst(name string, sort string) {
	if _, ok := s.decls[name]; ok {
		return
	}
	s.decls[name] = fmt.Sprintf("(declare-fun %s () %s)", name, sort)
	s.declOrder = append(s.declOrder, name)
}

func (s *Script) declFun(name string, args []string, ret string) {
	if _, ok := s.decls[name]; ok {
		return
	}
	s.decls[name] = fmt.Sprintf("(declare-fun %s (%s) %s)", name, strings.Join(args, " "), ret)
	s.declOrder = append(s.declOrder, name)
}

func (s *Script) assert(t Term) {
	if t == "true" {
		return
	}
	if strings.Contains(t, "qbv$") && !strings.Contains(t, "(forall ((qbv$") && !strings.Contains(t, "(exists ((qbv$") {
		// a side fact about a term that mentions a bound variable of a specification quantifier: it cannot
		// be stated at top level; dropping it only weakens what the solver knows
		return
	}
	s.asserts = append(s.asserts, t)
}

func (s *Script) assertC(t Term, comment string) {
	if t == "true" {
		return
	}
	s.comments[len(s.asserts)] = comment
	s.asserts = append(s.asserts, t)
}

const preludeText = `(define-fun wrapu ((x Int) (m Int)) Int (mod x m))
(define-fun wraps ((x Int) (m Int)) Int (- (mod (+ x (div m 2)) m) (div m 2)))
(define-fun tdiv ((a Int) (b Int)) Int (ite (>= a 0) (ite (> b 0) (div a b) (- (div a (- b)))) (ite (> b 0) (- (div (- a) b)) (div (- a) (- b)))))
(define-fun trem ((a Int) (b Int)) Int (- a (* b (tdiv a b))))
(define-fun b2i ((b Bool)) Int (ite b 1 0))
(declare-fun bitand (Int Int) Int)
(declare-fun bitor (Int Int) Int)
(declare-fun bitxor (Int Int) Int)
(declare-fun bitshl (Int Int) Int)
(declare-fun bitshr (Int Int) Int)
(declare-fun bytesval ((Array Int Int) Int Int) Int)
(declare-fun strlen (Int) Int)
(assert (forall ((s Int)) (! (and (>= (strlen s) 0) (<= (strlen s) 4611686018427387904)) :pattern ((strlen s)))))
(declare-fun strcat (Int Int) Int)
(assert (forall ((a Int) (b Int)) (! (=> (<= (+ (strlen a) (strlen b)) 4611686018427387904) (= (strlen (strcat a b)) (+ (strlen a) (strlen b)))) :pattern ((strcat a b)))))
(declare-fun implements (Int Int) Bool)
(declare-fun sidx (Int Int) Int)
(assert (forall ((o Int) (i Int)) (! (= (sidx o i) (+ o i)) :pattern ((sidx o i)))))
`

// sidx: position of element i of a slice with offset off in its backing array. Uninterpreted with a defining
// axiom, so that quantified facts about slice elements have a usable trigger (select arr (sidx off i)).
func sidx(off, i Term) Term {
	if off == "0" {
		return i
	}
	return app("sidx", off, i)
}

// render writes the script of one obligation: all declarations, the first n assertions (the facts established
// before the obligation was generated -- never the "execution continues only if the check passed" facts that
// follow it) and the negated goal. n < 0 means all assertions.
func (s *Script) render(goal Term, withModel bool, n int) string {
	if s.raw != "" {
		return s.raw
	}
	if n < 0 || n > len(s.asserts) {
		n = len(s.asserts)
	}
	var b strings.Builder
	b.WriteString("(set-option :produce-models true)\n(set-logic ALL)\n")
	b.WriteString(preludeText)
	for _, n := range s.declOrder {
		b.WriteString(s.decls[n])
		b.WriteByte('\n')
	}
	for i, a := range s.asserts[:n] {
		if c, ok := s.comments[i]; ok {
			b.WriteString("; " + c + "\n")
		}
		b.WriteString("(assert " + a + ")\n")
	}
	b.WriteString("; ---- negated goal\n(assert " + goal + ")\n(check-sat)\n")
	if withModel {
		b.WriteString("(get-model)\n")
	}
	return b.String()
}

func sortedKeys[V any](m map[string]V) []string {
	ks := make([]string, 0, len(m))
	for k := range m {
		ks = append(ks, k)
	}
	sort.Strings(ks)
	return ks
}
