package main

import (
	"fmt"
	"go/types"
	"regexp"
	"strings"
)

// Leaf is one SMT-level component of a Go value.
type Leaf struct {
	Path string // "" for scalars, ".f.g" for nested struct fields, ".b/.o/.l/.c" slices, ".t/.p" interfaces
	Sort Sort
	Typ  types.Type // Go type of the scalar leaf (nil for synthetic components)
}

// Val is a Go value flattened into SMT terms, in the order given by leaves(type).
type Val struct {
	ts []Term
	// engine-level pointers that are not first-class SMT values
	fp *fieldPtr
	// engine-level closure (MakeClosure result) for inlining
	clo *closureInfo
	// in a specification environment: ts[0] is the address of a local variable that lives in a heap cell (it is
	// captured by a function literal); the name denotes the cell's content, of this type, in the state of evaluation
	cellOf types.Type
}

type fieldPtr struct {
	kind  int // 1 = field of struct at base; 2 = element idx of backing array base
	base  Term
	key   string // heap key
	idx   Term
	sort  Sort
	typ   types.Type // pointee type
	ekeys []elemKey  // for kind 2 with struct element: per-leaf keys
}

type elemKey struct {
	key  string
	sort Sort
}

func typeKey(t types.Type) string {
	s := types.TypeString(types.Unalias(t), func(p *types.Package) string { return p.Path() })
	// universe aliases: byte = uint8, rune = int32 (also inside composite type strings)
	s = byteRe.ReplaceAllString(s, "${1}uint8")
	s = runeRe.ReplaceAllString(s, "${1}int32")
	for _, e := range typeSubst {
		s = e.re.ReplaceAllString(s, e.to)
	}
	return s
}

// typeSubst: type-parameter names replaced by the keys of their type arguments while the contract of a generic
// callee is evaluated at an instantiated call site (set and reset by applyContract).
type typeSubstEntry struct {
	re *regexp.Regexp
	to string
}

var typeSubst []typeSubstEntry

var byteRe = regexp.MustCompile(`(^|[^\w./])byte\b`)
var runeRe = regexp.MustCompile(`(^|[^\w./])rune\b`)

func isAggregate(t types.Type) bool {
	switch t.Underlying().(type) {
	case *types.Struct, *types.Array:
		return true
	}
	return false
}

func leaves(t types.Type) []Leaf {
	switch u := t.Underlying().(type) {
	case *types.Basic:
		if u.Info()&types.IsBoolean != 0 {
			return []Leaf{{"", SBool, t}}
		}
		return []Leaf{{"", SInt, t}}
	case *types.Pointer, *types.Map, *types.Chan, *types.Signature:
		return []Leaf{{"", SInt, t}}
	case *types.Slice:
		return []Leaf{{".b", SInt, nil}, {".o", SInt, nil}, {".l", SInt, nil}, {".c", SInt, nil}}
	case *types.Interface:
		return []Leaf{{".t", SInt, nil}, {".p", SInt, nil}}
	case *types.Struct:
		var ls []Leaf
		for i := 0; i < u.NumFields(); i++ {
			f := u.Field(i)
			for _, l := range leaves(f.Type()) {
				ls = append(ls, Leaf{"." + f.Name() + l.Path, l.Sort, l.Typ})
			}
		}
		if len(ls) == 0 {
			return nil
		}
		return ls
	case *types.Array:
		el := leaves(u.Elem())
		if len(el) == 1 && el[0].Sort == SBool {
			return []Leaf{{"", SArrB, t}}
		}
		// arrays of scalars: contents array; arrays of composites: opaque contents id array
		return []Leaf{{"", SArr, t}}
	case *types.Tuple:
		var ls []Leaf
		for i := 0; i < u.Len(); i++ {
			for _, l := range leaves(u.At(i).Type()) {
				ls = append(ls, Leaf{fmt.Sprintf(".%d%s", i, l.Path), l.Sort, l.Typ})
			}
		}
		return ls
	case *types.TypeParam:
		return []Leaf{{"", SInt, t}}
	}
	panic(fmt.Sprintf("leaves: unsupported type %s (%T)", t, t.Underlying()))
}

func nLeaves(t types.Type) int { return len(leaves(t)) }

// fieldRange gives the leaf index range of field i of struct type st.
func fieldRange(st *types.Struct, i int) (int, int) {
	off := 0
	for j := 0; j < i; j++ {
		off += nLeaves(st.Field(j).Type())
	}
	return off, off + nLeaves(st.Field(i).Type())
}

func tupleRange(tp *types.Tuple, i int) (int, int) {
	off := 0
	for j := 0; j < i; j++ {
		off += nLeaves(tp.At(j).Type())
	}
	return off, off + nLeaves(tp.At(i).Type())
}

func zeroOf(s Sort) Term {
	switch s {
	case SInt:
		return "0"
	case SBool:
		return "false"
	case SArr:
		return "((as const (Array Int Int)) 0)"
	case SArrB:
		return "((as const (Array Int Bool)) false)"
	}
	return "0"
}

func zeroVal(t types.Type) Val {
	ls := leaves(t)
	v := Val{ts: make([]Term, len(ls))}
	for i, l := range ls {
		v.ts[i] = zeroOf(l.Sort)
	}
	return v
}

// intRange returns (isInt, signed, bits) for integer basic types.
func intRange(t types.Type) (bool, bool, int) {
	b, ok := t.Underlying().(*types.Basic)
	if !ok {
		return false, false, 0
	}
	switch b.Kind() {
	case types.Int, types.Int64:
		return true, true, 64
	case types.Int8:
		return true, true, 8
	case types.Int16:
		return true, true, 16
	case types.Int32:
		return true, true, 32
	case types.Uint, types.Uint64, types.Uintptr:
		return true, false, 64
	case types.Uint8:
		return true, false, 8
	case types.Uint16:
		return true, false, 16
	case types.Uint32:
		return true, false, 32
	case types.UntypedInt, types.UntypedRune:
		return true, true, 64
	}
	return false, false, 0
}

// rangeFact: the SMT fact that term x is a valid value of Go type t (integers only).
func rangeFact(t types.Type, x Term) Term {
	if t == nil {
		return "true"
	}
	isInt, signed, bits := intRange(t)
	if !isInt {
		switch t.Underlying().(type) {
		case *types.Pointer, *types.Map, *types.Chan:
			return app(">=", x, "0")
		}
		return "true"
	}
	if signed {
		lo := new(bigIntT).Neg(pow2(bits - 1))
		hi := new(bigIntT).Sub(pow2(bits-1), bigOne)
		return and(app("<=", bigNum(lo), x), app("<=", x, bigNum(hi)))
	}
	hi := new(bigIntT).Sub(pow2(bits), bigOne)
	return and(app("<=", "0", x), app("<=", x, bigNum(hi)))
}

// heap key helpers ---------------------------------------------------------

func structName(t types.Type) string {
	if p, ok := t.Underlying().(*types.Pointer); ok {
		t = p.Elem()
	}
	return typeKey(t)
}

func cleanKey(s string) string {
	r := strings.NewReplacer("github.com/bloxapp/", "", "github.com/", "", " ", "_", "(", "<", ")", ">", "|", "!")
	return r.Replace(s)
}
