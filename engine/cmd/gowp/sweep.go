package main

// `gowp sweep pkg...` - a zero-annotation no-panic sweep, used to look for defects (it is not one of the registered
// checks and proves nothing).
//
// Every declared function of the given packages gets a synthetic contract: run-time checks (index, slice bounds,
// nil-map write, slice-to-array) are obligations, pointer / interface / map parameters are assumed non-nil, callees are
// havoc (or their real contract where one exists), loops are cut without invariants. An obligation the solver
// REFUTES is only a candidate (a missing precondition or loop invariant refutes just as well); it is reported as
// CONFIRMED only when the model's inputs, replayed on the real function, make it panic (replay.go).

import (
	"flag"
	"fmt"
	"os"
	"path/filepath"
	"regexp"
	"runtime/debug"
	"sort"
	"strings"

	"go/types"

	"golang.org/x/tools/go/ssa"
)

var sweepKinds = regexp.MustCompile(`\.safety\.(index|slice-bounds|slice-to-array|nil-map-write|slice-too-short-for-uint64|div-zero|make-len)`)

// thinContractHeader: the contract key of a declared function ("(*T).M", "(T).M", "F") and the requires clause that
// states what the sweep assumed (reference-typed parameters non-nil). nameable is false when a reference-typed
// parameter has no usable name.
func thinContractHeader(fn *ssa.Function) (key, req string, nameable bool) {
	key = fn.Name()
	if recv := fn.Signature.Recv(); recv != nil {
		t := recv.Type()
		star := ""
		if pt, ok := t.(*types.Pointer); ok {
			t, star = pt.Elem(), "*"
		}
		name := ""
		switch tt := t.(type) {
		case *types.Named:
			name = tt.Obj().Name()
		case *types.Alias:
			name = tt.Obj().Name()
		}
		if name == "" {
			return "", "", false
		}
		key = "(" + star + name + ")." + fn.Name()
	}
	var conj []string
	for _, p := range fn.Params {
		switch p.Type().Underlying().(type) {
		case *types.Pointer, *types.Interface, *types.Map, *types.Chan, *types.Signature:
			if p.Name() == "" || p.Name() == "_" {
				return key, "", false
			}
			conj = append(conj, p.Name()+" != nil")
		}
	}
	return key, strings.Join(conj, " && "), true
}

func cmdSweep(args []string) int {
	fs := flag.NewFlagSet("sweep", flag.ExitOnError)
	repo := fs.String("repo", envOr("VERIF_REPO", "/repo"), "repository root")
	verif := fs.String("verif", envOr("VERIF_DIR", "/verif"), "verif root")
	only := fs.String("only", "", "regexp: only functions matching")
	emit := fs.String("emit", "", "property ids: print a thin safety contract (safety + non-nil reference parameters) for every function without a contract whose obligations are ALL discharged, to be appended to the package's contract file")
	fs.Parse(args)
	pkgs := fs.Args()
	if len(pkgs) == 0 {
		fmt.Fprintln(os.Stderr, "usage: gowp sweep [--only re] pkg...")
		return 2
	}
	var onlyRe *regexp.Regexp
	if *only != "" {
		onlyRe = regexp.MustCompile(*only)
	}
	eng := newEngine(*repo)
	if err := eng.load(pkgs, []string{filepath.Join(*verif, "contracts", "specqbft.go")}, nil); err != nil {
		fmt.Fprintln(os.Stderr, "gowp: load:", err)
		return 2
	}
	var obs []*Obligation
	var emitFns []*ssa.Function
	emitObs := map[*ssa.Function][]*Obligation{}
	nfun := 0
	for _, rel := range pkgs {
		sp := eng.ssaPkgs["github.com/bloxapp/ssv/"+rel]
		if sp == nil {
			continue
		}
		seen := map[*ssa.Function]bool{}
		forEachFunc(eng, sp, func(fn *ssa.Function) {
			if seen[fn] || fn.Blocks == nil || fn.Synthetic != "" || fn.Pkg != sp || strings.HasPrefix(fn.Name(), "verif_") || fn.Name() == "init" {
				return
			}
			seen[fn] = true
			if fn.Signature.TypeParams().Len() > 0 || fn.Signature.RecvTypeParams().Len() > 0 {
				return
			}
			if onlyRe != nil && !onlyRe.MatchString(fn.String()) {
				return
			}
			con := &Contract{Key: fn.String(), CalleeKey: fn.String() + "#sweep", Safety: true, HasMod: true, Modifies: []string{"everything"}, NoFrame: true, InvVars: map[int]string{}}
			for _, p := range fn.Params {
				con.SynParams = append(con.SynParams, p.Name())
			}
			con.SrcFile = filepath.Base(eng.fset.Position(fn.Pos()).Filename)
			con.SweepFn = fn
			enc := newEnc(eng, fn, con, "sweep")
			enc.safety = true
			enc.sweep = true
			ok := func() (ok bool) {
				defer func() {
					if r := recover(); r != nil {
						if os.Getenv("GOWP_DEBUG") != "" {
							fmt.Fprintf(os.Stderr, "sweep: %s: encoder gave up: %v\n%s\n", fn, r, debug.Stack())
						}
						ok = false
					}
				}()
				enc.run()
				return true
			}()
			if !ok {
				return
			}
			nfun++
			if *emit != "" {
				if _, has := eng.contracts[fn.String()]; has || fn.Parent() != nil {
					return
				}
				emitFns = append(emitFns, fn)
				for _, ob := range enc.obls {
					if ob.Kind != "cover" {
						obs = append(obs, ob)
						emitObs[fn] = append(emitObs[fn], ob)
					}
				}
				return
			}
			for _, ob := range enc.obls {
				if ob.Kind == "safety" && sweepKinds.MatchString(ob.Name) {
					obs = append(obs, ob)
				}
			}
		})
	}
	dir, _ := os.MkdirTemp("", "gowp-sweep-")
	defer os.RemoveAll(dir)
	solveAll(dir, obs, 5, 12, false)
	if *emit != "" {
		nEmit := 0
		for _, fn := range emitFns {
			obl := emitObs[fn]
			ok := len(obl) > 0
			for _, ob := range obl {
				ok = ok && ob.Status == "unsat"
			}
			key, req, nameable := thinContractHeader(fn)
			if !ok || !nameable {
				fmt.Printf("// skipped %s: %d obligations, all discharged: %v, parameters nameable: %v\n", fn, len(obl), ok, nameable)
				continue
			}
			nEmit++
			fmt.Printf("\n//@ func %s\n//@ props %s\n//@ safety\n//@ modifies everything\n", key, *emit)
			if req != "" {
				fmt.Printf("//@ requires %s\n", req)
			}
		}
		fmt.Printf("\n// sweep --emit: %d functions encoded, %d thin safety contracts emitted\n", nfun, nEmit)
		return 0
	}
	var confirmed, candidates []string
	nsat := 0
	for _, ob := range obs {
		if ob.Status != "sat" {
			continue
		}
		nsat++
		var b strings.Builder
		if ob.Model != "" && tryReplay(eng, *verif, "sweep", ob, &b) {
			out := b.String()
			msg := ""
			if j := strings.Index(out, "--- replay output"); j >= 0 {
				if i := strings.Index(out[j:], "VERIF-REPLAY-VIOLATED"); i >= 0 {
					msg = strings.SplitN(out[j+i:], "\n", 2)[0]
				}
			}
			inputs := ""
			for _, ln := range strings.Split(out, "\n") {
				if strings.Contains(ln, ":= ") && !strings.Contains(ln, "verif_") {
					inputs += strings.TrimSpace(ln) + "; "
				}
			}
			confirmed = append(confirmed, fmt.Sprintf("%s at %s\n    inputs: %s\n    %s", ob.Name, ob.Pos, inputs, msg))
		} else {
			why := ""
			if i := strings.Index(b.String(), "--- replay: "); i >= 0 {
				why = strings.SplitN(b.String()[i+12:], "\n", 2)[0]
			}
			candidates = append(candidates, fmt.Sprintf("%s at %s (%s)", ob.Name, ob.Pos, why))
		}
	}
	sort.Strings(confirmed)
	sort.Strings(candidates)
	for _, c := range confirmed {
		fmt.Println("CONFIRMED", c)
	}
	for _, c := range candidates {
		fmt.Println("candidate", c)
	}
	fmt.Printf("sweep: %d functions, %d run-time-check obligations, %d refuted, %d confirmed by replay on the real code\n", nfun, len(obs), nsat, len(confirmed))
	return 0
}
