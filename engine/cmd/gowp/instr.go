package main

import (
	"fmt"
	"go/token"
	"go/types"
	"strings"

	"golang.org/x/tools/go/ssa"
)

func (fr *frame) safety(b *ssa.BasicBlock, kind string, pos token.Pos, reach, goal Term) {
	x := fr.x
	if !x.safety {
		// without a safety contract the check is not an obligation, but a failed check is still a run-time panic:
		// the code after it runs only if it passed
		x.sc.assert(implies(reach, goal))
		return
	}
	x.addObl("safety", fmt.Sprintf("%s.safety.%s", shortFn(fr.fn), kind), kind, pos, reach, goal)
	if x.topFr != nil && fr.depth == 0 {
		last := x.obls[len(x.obls)-1]
		last.Con = x.con
		x.replayInfo(last, x.topFr, x.topFr.entry)
	}
	// execution continues only if the check passed
	x.sc.assert(implies(reach, goal))
}

func derefType(t types.Type) types.Type {
	if p, ok := t.Underlying().(*types.Pointer); ok {
		return p.Elem()
	}
	return t
}

func (fr *frame) instr(b *ssa.BasicBlock, in ssa.Instruction, reach Term, h Heap) Heap {
	x := fr.x
	switch in := in.(type) {
	case *ssa.DebugRef:
		return h
	case *ssa.Alloc:
		return fr.alloc(in, reach, h)
	case *ssa.FieldAddr:
		p := fr.get(in.X)
		st := derefType(in.X.Type())
		if p.fp == nil {
			fr.safety(b, "nil-deref", in.Pos(), reach, not(eq(p.ts[0], "0")))
		}
		fr.vals[in] = x.fieldAddr(p, st, in.Field)
		if fr.vals[in].fp == nil {
			fr.bind(in, fr.vals[in])
		}
		return h
	case *ssa.Field:
		v := fr.get(in.X)
		st := in.X.Type().Underlying().(*types.Struct)
		lo, hi := fieldRange(st, in.Field)
		fr.bind(in, Val{ts: v.ts[lo:hi]})
		return h
	case *ssa.IndexAddr:
		idx := fr.get(in.Index).ts[0]
		xv := fr.get(in.X)
		switch t := in.X.Type().Underlying().(type) {
		case *types.Slice:
			fr.safety(b, "index", in.Pos(), reach, and(app("<=", "0", idx), app("<", idx, xv.ts[2])))
			fr.vals[in] = x.indexAddr(xv.ts[0], sidx(xv.ts[1], idx), t.Elem())
		case *types.Pointer:
			at := t.Elem().Underlying().(*types.Array)
			if xv.fp != nil {
				x.note("index through field pointer to array")
				fr.vals[in] = Val{fp: &fieldPtr{kind: 2, base: x.freshConst("arrbase", "Int"), idx: idx, key: elemKeyOf(at.Elem(), ""), typ: at.Elem()}}
				return h
			}
			fr.safety(b, "nil-deref", in.Pos(), reach, not(eq(xv.ts[0], "0")))
			fr.safety(b, "index", in.Pos(), reach, and(app("<=", "0", idx), app("<", idx, num(at.Len()))))
			fr.vals[in] = x.indexAddr(xv.ts[0], idx, at.Elem())
		default:
			x.note("IndexAddr on " + in.X.Type().String())
			fr.vals[in] = Val{ts: []Term{x.freshConst("ia", "Int")}}
		}
		if fr.vals[in].fp == nil {
			fr.bind(in, fr.vals[in])
		}
		return h
	case *ssa.Index:
		xv := fr.get(in.X)
		idx := fr.get(in.Index).ts[0]
		switch t := in.X.Type().Underlying().(type) {
		case *types.Array:
			fr.safety(b, "index", in.Pos(), reach, and(app("<=", "0", idx), app("<", idx, num(t.Len()))))
			if nLeaves(t.Elem()) == 1 && isScalarElem(t.Elem()) {
				fr.bind(in, Val{ts: []Term{app("select", xv.ts[0], idx)}})
			} else {
				x.note("index of array value with composite elements")
				fr.bind(in, x.freshVal("idx", in.Type()))
			}
		case *types.Basic: // string
			fr.safety(b, "index", in.Pos(), reach, and(app("<=", "0", idx), app("<", idx, app("strlen", xv.ts[0]))))
			x.sc.declFun("strat", []string{"Int", "Int"}, "Int")
			r := app("strat", xv.ts[0], idx)
			x.sc.assert(and(app("<=", "0", r), app("<", r, "256")))
			fr.bind(in, Val{ts: []Term{r}})
		default:
			fr.bind(in, x.freshVal("idx", in.Type()))
		}
		return h
	case *ssa.UnOp:
		return fr.unop(b, in, reach, h)
	case *ssa.BinOp:
		fr.bind(in, x.binop(fr, b, in.Op, fr.get(in.X), fr.get(in.Y), in.X.Type(), in.Y.Type(), in.Type(), reach, in.Pos()))
		return h
	case *ssa.Store:
		p := fr.get(in.Addr)
		if p.fp == nil {
			fr.safety(b, "nil-deref", in.Pos(), reach, not(eq(p.ts[0], "0")))
		}
		v := fr.get(in.Val)
		// stores to a named struct field are observable events: ghost counters / forbid may watch them
		// (pattern store:<Type>.<field>, or store:<Type>.<field>#k for the k-th such store in source order)
		h = fr.countStore(in, h)
		nh := x.storeAt(h, p, in.Val.Type(), v)
		if !fr.isLocalAddr(in.Addr) {
			nh = x.bumpEpoch(nh)
		}
		return nh
	case *ssa.Phi:
		return h
	case *ssa.If, *ssa.Jump:
		return h
	case *ssa.Return:
		var vals []Val
		for _, r := range in.Results {
			vals = append(vals, fr.get(r))
		}
		fr.rets = append(fr.rets, retInfo{reach: reach, vals: vals, heap: h, pos: in.Pos()})
		return h
	case *ssa.Panic:
		if x.safety {
			x.addObl("safety", fmt.Sprintf("%s.safety.panic", shortFn(fr.fn)), "explicit panic unreachable", in.Pos(), reach, "false")
		}
		return h
	case *ssa.RunDefers:
		for i := len(fr.defers) - 1; i >= 0; i-- {
			d := fr.defers[i]
			switch {
			case d.Block() == b || d.Block().Dominates(b):
				// registered on every path to this return
				_, h = fr.call(b, d, &d.Call, reach, h, nil)
			case !blockReaches(d.Block(), b):
				// not registered on any path to this return
			default:
				x.note("conditionally registered defer in " + fr.fn.String() + ": modelled as an arbitrary effect")
				h = x.havocAll(h, reach)
			}
		}
		return h
	case *ssa.Defer:
		for _, d := range fr.defers {
			if d == in {
				return h
			}
		}
		fr.defers = append(fr.defers, in)
		return h
	case *ssa.Go:
		// the spawned goroutine is verified separately; spawning has no effect on this goroutine,
		// but may touch shared memory later: unguarded sharing is outside the model.
		var gargs []Val
		var gtypes []types.Type
		if in.Call.IsInvoke() {
			gargs = append(gargs, fr.get(in.Call.Value))
			gtypes = append(gtypes, in.Call.Value.Type())
		}
		for _, a := range in.Call.Args {
			gargs = append(gargs, fr.get(a))
			gtypes = append(gtypes, a.Type())
		}
		return fr.countCall(&in.Call, calleeName(&in.Call), gargs, gtypes, h)
	case *ssa.Call:
		res, nh := fr.call(b, in, &in.Call, reach, h, in)
		if in.Type() != nil {
			if tp, ok := in.Type().(*types.Tuple); !ok || tp.Len() > 0 {
				fr.bind(in, res)
			}
		}
		return nh
	case *ssa.MakeInterface:
		fr.bind(in, x.makeIface(fr.get(in.X), in.X.Type()))
		return h
	case *ssa.ChangeInterface:
		fr.bind(in, fr.get(in.X))
		return h
	case *ssa.ChangeType:
		v := fr.get(in.X)
		fr.bind(in, Val{ts: v.ts, clo: v.clo})
		return h
	case *ssa.Convert:
		fr.bind(in, x.convert(fr.get(in.X), in.X.Type(), in.Type(), h))
		return h
	case *ssa.Extract:
		tv := fr.get(in.Tuple)
		lo, hi := tupleRange(in.Tuple.Type().(*types.Tuple), in.Index)
		fr.bind(in, Val{ts: tv.ts[lo:hi]})
		return h
	case *ssa.TypeAssert:
		return fr.typeAssert(b, in, reach, h)
	case *ssa.MakeSlice:
		return fr.makeSlice(b, in, reach, h)
	case *ssa.Slice:
		return fr.slice(b, in, reach, h)
	case *ssa.MakeClosure:
		fn := in.Fn.(*ssa.Function)
		var bs []Val
		for _, bv := range in.Bindings {
			bs = append(bs, fr.get(bv))
		}
		id := x.freshConst("closure", "Int")
		x.sc.assert(app(">", id, "0"))
		fr.vals[in] = Val{ts: []Term{id}, clo: &closureInfo{fn: fn, bindings: bs}}
		return h
	case *ssa.MakeMap:
		return fr.makeMap(in, reach, h)
	case *ssa.MapUpdate:
		return fr.mapUpdate(b, in, reach, h)
	case *ssa.Lookup:
		return fr.lookup(b, in, reach, h)
	case *ssa.Range:
		// iterator: opaque
		fr.vals[in] = Val{ts: []Term{x.freshConst("iter", "Int")}}
		return h
	case *ssa.Next:
		return fr.next(in, reach, h)
	case *ssa.MakeChan:
		r := x.freshConst("chan", "Int")
		x.regKey(keyAlloc, "Int")
		x.sc.assert(app(">", r, x.hget(h, keyAlloc)))
		h = h.set(keyAlloc, r)
		fr.bind(in, Val{ts: []Term{r}})
		return h
	case *ssa.Send:
		// channel sends are observable events: ghost counters may watch them (pattern send:<channel variable>)
		return fr.countSend(in, h)
	case *ssa.Select:
		// (index int, recvOk bool, r_0 T_0, ...): nondeterministic choice
		v := x.freshVal("select", in.Type())
		n := len(in.States)
		lo := "0"
		if !in.Blocking {
			lo = "(- 1)"
		}
		x.sc.assert(and(app("<=", lo, v.ts[0]), app("<", v.ts[0], num(int64(n)))))
		x.sc.assert(implies(reach, x.typeFacts(in.Type(), v, h)))
		fr.bind(in, v)
		if in.Blocking {
			h = fr.interfere(h)
		}
		// ghost counters with pattern select:<channel variable> count the times the select took that receive
		// case; the leaves of the received value are recorded as arguments 0..
		if x.con != nil {
			tp, _ := in.Type().(*types.Tuple)
			recvIdx := 0
			for k, st := range in.States {
				name := chanVarName(st.Chan)
				isRecv := st.Dir == types.RecvOnly
				var lo, hi int
				if isRecv && tp != nil && 2+recvIdx < tp.Len() {
					lo, hi = tupleRange(tp, 2+recvIdx)
					recvIdx++
				}
				for _, cs := range x.con.Counts {
					if name == "" || cs[1] != "select:"+name {
						continue
					}
					if x.countHits == nil {
						x.countHits = map[string]int{}
					}
					x.countHits[cs[0]]++
					taken := eq(v.ts[0], num(int64(k)))
					ck := "$cnt:" + cs[0]
					x.regKey(ck, "Int")
					h = h.set(ck, ite(taken, plus(x.hget(h, ck), "1"), x.hget(h, ck)))
					if isRecv && hi > lo {
						rt := tp.At(2 + recvIdx - 1).Type()
						ls := leaves(rt)
						for i := 0; lo+i < hi && i < 4 && i < len(ls); i++ {
							ak := fmt.Sprintf("$arg:%s:%d", cs[0], i)
							x.regKey(ak, "Int")
							h = h.set(ak, ite(taken, asInt(v.ts[lo+i], ls[i].Sort), x.hget(h, ak)))
						}
					}
				}
			}
		}
		return h
	case *ssa.SliceToArrayPointer:
		xv := fr.get(in.X)
		at := in.Type().Underlying().(*types.Pointer).Elem().Underlying().(*types.Array)
		fr.safety(b, "slice-to-array", in.Pos(), reach, app(">=", xv.ts[2], num(at.Len())))
		if isSimple(xv.ts[1]) && xv.ts[1] == "0" {
			fr.bind(in, Val{ts: []Term{xv.ts[0]}})
		} else {
			x.note("slice-to-array-pointer with non-zero offset")
			p := x.freshConst("s2a", "Int")
			// the array pointer is nil only for a nil slice; a slice long enough for a non-empty array is not nil
			if at.Len() > 0 {
				x.sc.assert(implies(reach, app(">", p, "0")))
			}
			fr.bind(in, Val{ts: []Term{p}})
		}
		return h
	default:
		x.note(fmt.Sprintf("unsupported instruction %T in %s", in, fr.fn))
		if v, ok := in.(ssa.Value); ok {
			fr.bind(v, x.freshVal("unsup", v.Type()))
		}
		return x.havocAll(h, reach)
	}
}

// isLocalAddr: the address is rooted in an Alloc of this function that never escapes.
func (fr *frame) isLocalAddr(a ssa.Value) bool {
	for {
		switch v := a.(type) {
		case *ssa.Alloc:
			return !escapes(v)
		case *ssa.FieldAddr:
			a = v.X
		case *ssa.IndexAddr:
			if _, ok := v.X.Type().Underlying().(*types.Pointer); ok {
				a = v.X
			} else {
				return false
			}
		default:
			return false
		}
	}
}

var escapeCache = map[*ssa.Alloc]bool{}

// nonRetaining: callees with a pure contract (no heap effect, cannot retain their arguments); set by the engine.
var nonRetaining func(name string) bool

// currentPure: callees declared pure by the contract of the function being encoded (set by Enc.run).
var currentPure = map[string]bool{}

// closureOnlyLoads: the function literal built by mc uses the captured variable v (a pointer to its cell) only as the
// operand of loads.
func closureOnlyLoads(mc *ssa.MakeClosure, v ssa.Value) bool {
	fn, ok := mc.Fn.(*ssa.Function)
	if !ok {
		return false
	}
	found := false
	for k, b := range mc.Bindings {
		if b != v {
			continue
		}
		if k >= len(fn.FreeVars) {
			return false
		}
		found = true
		refs := fn.FreeVars[k].Referrers()
		if refs == nil {
			return false
		}
		for _, r := range *refs {
			switch r := r.(type) {
			case *ssa.DebugRef:
			case *ssa.UnOp:
				if r.Op != token.MUL {
					return false
				}
			default:
				return false
			}
		}
	}
	return found
}

func escapes(a *ssa.Alloc) bool {
	if r, ok := escapeCache[a]; ok {
		return r
	}
	var walk func(v ssa.Value, depth int) bool
	walk = func(v ssa.Value, depth int) bool {
		refs := v.Referrers()
		if refs == nil {
			return true
		}
		for _, r := range *refs {
			switch r := r.(type) {
			case *ssa.DebugRef:
			case *ssa.UnOp:
				if r.Op != token.MUL {
					return true
				}
			case *ssa.Store:
				if r.Val == v {
					return true
				}
			case *ssa.FieldAddr:
				if walk(r, depth+1) {
					return true
				}
			case *ssa.IndexAddr:
				if walk(r, depth+1) {
					return true
				}
			case *ssa.Call:
				// passed to a callee that neither writes the heap nor retains its arguments
				n := calleeName(&r.Call)
				if !(isEffectFree(n) || (nonRetaining != nil && nonRetaining(n))) {
					return true
				}
			case *ssa.MakeClosure:
				// captured by a function literal that is only deferred or called on the spot in this function: no
				// other callee can reach the variable (the literal's body is encoded inline, with its own stores)
				if r.Referrers() == nil {
					return true
				}
				// ... or by a literal whose body only ever loads the variable (never stores to it, never passes its
				// address on): wherever that literal goes, nobody but this function can change the variable
				if depth == 0 && closureOnlyLoads(r, v) {
					continue
				}
				for _, rr := range *r.Referrers() {
					switch rr := rr.(type) {
					case *ssa.DebugRef:
					case *ssa.Defer:
						if rr.Call.Value != ssa.Value(r) {
							return true
						}
					case *ssa.Call:
						if rr.Call.Value != ssa.Value(r) {
							return true
						}
					default:
						return true
					}
				}
			case *ssa.Slice:
				// a slice of the allocation that only feeds append/copy or effect-free callees (variadic
				// argument arrays, logging fields) does not make the allocation visible to other code
				if r.Referrers() == nil {
					return true
				}
				for _, rr := range *r.Referrers() {
					switch rr := rr.(type) {
					case *ssa.DebugRef:
					case *ssa.Call:
						n := calleeName(&rr.Call)
						if !(n == "builtin.append" || n == "builtin.copy" || isEffectFree(n) || (nonRetaining != nil && nonRetaining(n))) {
							return true
						}
					default:
						return true
					}
				}
			default:
				return true
			}
		}
		return false
	}
	res := walk(a, 0)
	escapeCache[a] = res
	return res
}

func (fr *frame) alloc(in *ssa.Alloc, reach Term, h Heap) Heap {
	x := fr.x
	t := derefType(in.Type())
	r := sym(fr.name(in))
	x.sc.declConst(r, "Int")
	x.regKey(keyAlloc, "Int")
	x.sc.assert(app(">", r, x.hget(h, keyAlloc)))
	x.sc.assert(app(">", r, "0"))
	// a fresh object's own address is not the address of a field embedded in another object
	x.sc.declFun("embtag", []string{"Int"}, "Int")
	x.sc.assert(eq(app("embtag", r), "0"))
	h = h.set(keyAlloc, r)
	fr.vals[in] = Val{ts: []Term{r}}
	h = x.zeroInit(h, Val{ts: []Term{r}}, t)
	if !escapes(in) {
		x.localAllocs = append(x.localAllocs, localAlloc{ref: r, keys: x.keysOfAlloc(t), alloc: in})
	}
	return h
}

func (x *Enc) zeroInit(h Heap, ptr Val, t types.Type) Heap {
	switch u := t.Underlying().(type) {
	case *types.Struct:
		for i := 0; i < u.NumFields(); i++ {
			h = x.zeroInit(h, x.fieldAddr(ptr, t, i), u.Field(i).Type())
		}
		return h
	}
	return x.storeAt(h, ptr, t, zeroVal(t))
}

func (fr *frame) unop(b *ssa.BasicBlock, in *ssa.UnOp, reach Term, h Heap) Heap {
	x := fr.x
	v := fr.get(in.X)
	switch in.Op {
	case token.MUL: // load
		if v.fp == nil {
			fr.safety(b, "nil-deref", in.Pos(), reach, not(eq(v.ts[0], "0")))
		}
		res := x.loadAt(h, v, in.Type())
		fr.bind(in, res)
		x.sc.assert(implies(reach, x.typeFacts(in.Type(), fr.vals[in], h)))
		return h
	case token.NOT:
		fr.bind(in, Val{ts: []Term{not(v.ts[0])}})
	case token.SUB:
		fr.bind(in, Val{ts: []Term{x.wrap(in.Type(), app("-", v.ts[0]))}})
	case token.XOR:
		isInt, signed, bits := intRange(in.Type())
		if isInt && !signed {
			fr.bind(in, Val{ts: []Term{app("-", bigNum(new(bigIntT).Sub(pow2(bits), bigOne)), v.ts[0])}})
		} else {
			fr.bind(in, Val{ts: []Term{app("-", app("-", v.ts[0]), "1")}})
		}
	case token.ARROW: // channel receive
		res := x.freshVal("recv", in.Type())
		x.sc.assert(implies(reach, x.typeFacts(in.Type(), res, h)))
		fr.bind(in, res)
		return fr.interfere(h)
	default:
		x.note("unop " + in.Op.String())
		fr.bind(in, x.freshVal("unop", in.Type()))
	}
	return h
}

// wrapIf: machine arithmetic in code, mathematical integers in specifications.
func (x *Enc) wrapIf(code bool, t types.Type, e Term) Term {
	if !code {
		return e
	}
	return x.wrap(t, e)
}

func (x *Enc) wrap(t types.Type, e Term) Term {
	isInt, signed, bits := intRange(t)
	if !isInt {
		return e
	}
	m := bigNum(pow2(bits))
	if signed {
		return app("wraps", e, m)
	}
	return app("wrapu", e, m)
}

func isString(t types.Type) bool {
	b, ok := t.Underlying().(*types.Basic)
	return ok && b.Info()&types.IsString != 0
}

func isFloat(t types.Type) bool {
	b, ok := t.Underlying().(*types.Basic)
	return ok && b.Info()&(types.IsFloat|types.IsComplex) != 0
}

// valEq: Go equality of two values of type t.
func (x *Enc) valEq(a, b Val, t types.Type) Term {
	switch u := t.Underlying().(type) {
	case *types.Struct:
		var cs []Term
		off := 0
		for i := 0; i < u.NumFields(); i++ {
			n := nLeaves(u.Field(i).Type())
			cs = append(cs, x.valEq(Val{ts: a.ts[off : off+n]}, Val{ts: b.ts[off : off+n]}, u.Field(i).Type()))
			off += n
		}
		return and(cs...)
	case *types.Array:
		if a.ts[0] == b.ts[0] {
			return "true"
		}
		if nLeaves(u.Elem()) == 1 && leaves(u.Elem())[0].Sort == SInt {
			n := num(u.Len())
			return eq(app("bytesval", a.ts[0], "0", n), app("bytesval", b.ts[0], "0", n))
		}
		return eq(a.ts[0], b.ts[0])
	case *types.Slice:
		// only comparison with nil is legal
		return eq(a.ts[0], b.ts[0])
	case *types.Interface:
		// nil interface = type tag 0 (payload irrelevant)
		if a.ts[0] == "0" {
			return eq(b.ts[0], "0")
		}
		if b.ts[0] == "0" {
			return eq(a.ts[0], "0")
		}
		return or(and(eq(a.ts[0], "0"), eq(b.ts[0], "0")), and(eq(a.ts[0], b.ts[0]), eq(a.ts[1], b.ts[1])))
	}
	var cs []Term
	for i := range a.ts {
		cs = append(cs, eq(a.ts[i], b.ts[i]))
	}
	return and(cs...)
}

func (x *Enc) binop(fr *frame, b *ssa.BasicBlock, op token.Token, a, c Val, ta, tc, tr types.Type, reach Term, pos token.Pos) Val {
	one := func(t Term) Val { return Val{ts: []Term{t}} }
	// the address of a field / element of an existing object is never nil (taking it from a nil base panics first)
	isNil := func(v Val) bool { return v.fp == nil && len(v.ts) == 1 && v.ts[0] == "0" }
	if (op == token.EQL || op == token.NEQ) && ((a.fp != nil && isNil(c)) || (c.fp != nil && isNil(a))) {
		if op == token.EQL {
			return one("false")
		}
		return one("true")
	}
	switch op {
	case token.EQL:
		if a.fp != nil || c.fp != nil {
			x.note("comparison of field pointers")
			return one(x.freshConst("cmp", "Bool"))
		}
		return one(x.valEq(a, c, ta))
	case token.NEQ:
		if a.fp != nil || c.fp != nil {
			x.note("comparison of field pointers")
			return one(x.freshConst("cmp", "Bool"))
		}
		return one(not(x.valEq(a, c, ta)))
	}
	if a.fp != nil || c.fp != nil || len(a.ts) != 1 || len(c.ts) != 1 {
		x.note("binop " + op.String() + " on composite")
		return x.freshVal("binop", tr)
	}
	l, r := a.ts[0], c.ts[0]
	if isString(ta) {
		switch op {
		case token.ADD:
			res := app("strcat", l, r)
			// length of a concatenation: prelude axiom on strcat
			return one(res)
		case token.LSS, token.LEQ, token.GTR, token.GEQ:
			x.sc.declFun("strless", []string{"Int", "Int"}, "Bool")
			switch op {
			case token.LSS:
				return one(app("strless", l, r))
			case token.GTR:
				return one(app("strless", r, l))
			case token.LEQ:
				return one(not(app("strless", r, l)))
			default:
				return one(not(app("strless", l, r)))
			}
		}
	}
	if isFloat(ta) {
		switch op {
		case token.LSS:
			return one(app("<", l, r))
		case token.LEQ:
			return one(app("<=", l, r))
		case token.GTR:
			return one(app(">", l, r))
		case token.GEQ:
			return one(app(">=", l, r))
		}
		x.note("float arithmetic treated as uninterpreted")
		return one(x.freshConst("float", "Int"))
	}
	switch op {
	case token.ADD:
		return one(x.wrapIf(fr != nil, tr, app("+", l, r)))
	case token.SUB:
		return one(x.wrapIf(fr != nil, tr, app("-", l, r)))
	case token.MUL:
		return one(x.wrapIf(fr != nil, tr, app("*", l, r)))
	case token.QUO:
		if fr != nil {
			fr.safety(b, "div-zero", pos, reach, not(eq(r, "0")))
		}
		_, signed, _ := intRange(tr)
		if signed {
			return one(x.wrap(tr, app("tdiv", l, r)))
		}
		return one(app("div", l, r))
	case token.REM:
		if fr != nil {
			fr.safety(b, "div-zero", pos, reach, not(eq(r, "0")))
		}
		_, signed, _ := intRange(tr)
		if signed {
			return one(app("trem", l, r))
		}
		return one(app("mod", l, r))
	case token.LSS:
		return one(app("<", l, r))
	case token.LEQ:
		return one(app("<=", l, r))
	case token.GTR:
		return one(app(">", l, r))
	case token.GEQ:
		return one(app(">=", l, r))
	case token.AND:
		if ta.Underlying().(*types.Basic).Info()&types.IsBoolean != 0 {
			return one(and(l, r))
		}
		if k, ok := constPow2Minus1(r); ok {
			return one(app("mod", l, bigNum(pow2(k))))
		}
		res := app("bitand", l, r)
		x.sc.assert(implies(and(app(">=", l, "0"), app(">=", r, "0")), and(app("<=", "0", res), app("<=", res, l), app("<=", res, r))))
		return one(res)
	case token.OR:
		if ta.Underlying().(*types.Basic).Info()&types.IsBoolean != 0 {
			return one(or(l, r))
		}
		res := app("bitor", l, r)
		x.sc.assert(implies(and(app(">=", l, "0"), app(">=", r, "0")), and(app(">=", res, l), app(">=", res, r), app("<=", res, app("+", l, r)))))
		return one(res)
	case token.XOR:
		res := app("bitxor", l, r)
		x.sc.assert(x.typeFactsScalar(tr, res))
		return one(res)
	case token.SHL:
		if k, ok := constInt(r); ok && k < 64 {
			return one(x.wrap(tr, app("*", l, bigNum(pow2(int(k))))))
		}
		res := app("bitshl", l, r)
		x.sc.assert(x.typeFactsScalar(tr, res))
		return one(res)
	case token.SHR:
		if k, ok := constInt(r); ok && k < 64 {
			return one(app("div", l, bigNum(pow2(int(k))))) // floor division: correct for signed too
		}
		res := app("bitshr", l, r)
		x.sc.assert(x.typeFactsScalar(tr, res))
		return one(res)
	case token.AND_NOT:
		res := x.freshConst("andnot", "Int")
		x.sc.assert(x.typeFactsScalar(tr, res))
		return one(res)
	}
	x.note("binop " + op.String())
	return x.freshVal("binop", tr)
}

func (x *Enc) typeFactsScalar(t types.Type, term Term) Term { return rangeFact(t, term) }

func constInt(t Term) (int64, bool) {
	var n int64
	if _, err := fmt.Sscanf(t, "%d", &n); err == nil && fmt.Sprint(n) == t {
		return n, true
	}
	return 0, false
}

func constPow2Minus1(t Term) (int, bool) {
	n, ok := new(bigIntT).SetString(t, 10)
	if !ok || n.Sign() <= 0 {
		return 0, false
	}
	m := new(bigIntT).Add(n, bigOne)
	if m.BitLen() > 0 && new(bigIntT).And(m, n).Sign() == 0 {
		return m.BitLen() - 1, true
	}
	return 0, false
}

func (x *Enc) typeID(t types.Type) Term {
	k := typeKey(t)
	if id, ok := x.typeIDs[k]; ok {
		return num(int64(id))
	}
	id := len(x.typeIDs) + 1
	x.typeIDs[k] = id
	return num(int64(id))
}

func boxName(t types.Type, i int) string {
	return sym(fmt.Sprintf("unbox!%s!%d", cleanKey(typeKey(t)), i))
}

// makeIface boxes a concrete value into (type tag, payload).
func (x *Enc) makeIface(v Val, t types.Type) Val {
	if _, ok := t.Underlying().(*types.Interface); ok {
		return v
	}
	tag := x.typeID(t)
	ls := leaves(t)
	if len(ls) == 1 && ls[0].Sort == SInt && v.fp == nil {
		return Val{ts: []Term{tag, v.ts[0]}}
	}
	if len(ls) == 0 {
		return Val{ts: []Term{tag, "0"}}
	}
	if v.fp != nil {
		x.note("boxing an engine-level pointer")
		return Val{ts: []Term{tag, x.freshConst("box", "Int")}}
	}
	p := x.freshConst("box", "Int")
	for i, l := range ls {
		fn := boxName(t, i)
		x.sc.declFun(fn, []string{"Int"}, l.Sort.String())
		x.sc.assert(eq(app(fn, p), v.ts[i]))
	}
	return Val{ts: []Term{tag, p}}
}

func (x *Enc) unbox(payload Term, t types.Type) Val {
	ls := leaves(t)
	if len(ls) == 1 && ls[0].Sort == SInt {
		return Val{ts: []Term{payload}}
	}
	v := Val{ts: make([]Term, len(ls))}
	for i, l := range ls {
		fn := boxName(t, i)
		x.sc.declFun(fn, []string{"Int"}, l.Sort.String())
		v.ts[i] = app(fn, payload)
	}
	return v
}

func (fr *frame) typeAssert(b *ssa.BasicBlock, in *ssa.TypeAssert, reach Term, h Heap) Heap {
	x := fr.x
	v := fr.get(in.X)
	var ok Term
	var res Val
	if _, isIface := in.AssertedType.Underlying().(*types.Interface); isIface {
		ok = and(not(eq(v.ts[0], "0")), app("implements", v.ts[0], x.typeID(in.AssertedType)))
		res = v
	} else {
		ok = eq(v.ts[0], x.typeID(in.AssertedType))
		res = x.unbox(v.ts[1], in.AssertedType)
	}
	if in.CommaOk {
		// result is zero value when !ok
		z := zeroVal(in.AssertedType)
		out := Val{}
		for i := range res.ts {
			out.ts = append(out.ts, ite(ok, res.ts[i], z.ts[i]))
		}
		out.ts = append(out.ts, ok)
		fr.bind(in, out)
		// the value part is either the zero value or a valid value of the asserted type
		x.sc.assert(implies(reach, x.typeFacts(in.AssertedType, Val{ts: fr.vals[in].ts[:len(res.ts)]}, h)))
		return h
	}
	fr.safety(b, "type-assert", in.Pos(), reach, ok)
	if !x.safety {
		// a failed assertion panics: the path continues only when it holds
		x.sc.assert(implies(reach, ok))
	}
	fr.bind(in, res)
	x.sc.assert(implies(reach, x.typeFacts(in.AssertedType, fr.vals[in], h)))
	return h
}

func (x *Enc) convert(v Val, from, to types.Type, h Heap) Val {
	fi, _, _ := intRange(from)
	ti, _, _ := intRange(to)
	if fi && ti {
		return Val{ts: []Term{x.wrap(to, v.ts[0])}}
	}
	if isString(to) && !isString(from) {
		if _, ok := from.Underlying().(*types.Slice); ok {
			// string(bytes): content id of the slice
			ek := elemKeyOf(from.Underlying().(*types.Slice).Elem(), "")
			x.regKey(ek, "(Array Int (Array Int Int))")
			x.sc.declFun("bytes2str", []string{"Int"}, "Int")
			s := app("bytes2str", app("bytesval", app("select", x.hget(h, ek), v.ts[0]), v.ts[1], v.ts[2]))
			x.sc.assert(eq(app("strlen", s), v.ts[2]))
			return Val{ts: []Term{s}}
		}
		x.sc.declFun("int2str", []string{"Int"}, "Int")
		return Val{ts: []Term{app("int2str", v.ts[0])}}
	}
	if isString(from) {
		if _, ok := to.Underlying().(*types.Slice); ok {
			// []byte(s): fresh slice whose content id is tied to the string
			base := x.freshConst("strbytes", "Int")
			x.sc.assert(app(">", base, "0"))
			ln := app("strlen", v.ts[0])
			return Val{ts: []Term{base, "0", ln, ln}}
		}
	}
	if isFloat(from) || isFloat(to) {
		if isFloat(from) && isFloat(to) {
			return v
		}
		if isFloat(to) {
			return v // int -> float: exact in our integer model
		}
		x.note("float to int conversion treated as identity on integral values")
		return v
	}
	if len(leaves(from)) == len(leaves(to)) {
		return Val{ts: v.ts}
	}
	x.note(fmt.Sprintf("conversion %s -> %s", from, to))
	return x.freshVal("conv", to)
}

func (fr *frame) makeSlice(b *ssa.BasicBlock, in *ssa.MakeSlice, reach Term, h Heap) Heap {
	x := fr.x
	ln := fr.get(in.Len).ts[0]
	cp := fr.get(in.Cap).ts[0]
	fr.safety(b, "make-len", in.Pos(), reach, and(app("<=", "0", ln), app("<=", ln, cp)))
	et := in.Type().Underlying().(*types.Slice).Elem()
	base := sym(fr.name(in) + "!base")
	x.sc.declConst(base, "Int")
	x.regKey(keyAlloc, "Int")
	x.sc.assert(app(">", base, x.hget(h, keyAlloc)))
	x.sc.assert(app(">", base, "0"))
	h = h.set(keyAlloc, base)
	if isScalarElem(et) {
		for _, l := range leaves(et) {
			key := elemKeyOf(et, "") + l.Path
			x.regKey(key, "(Array Int "+heapSort(l.Sort)+")")
			h = x.hset(h, key, app("store", x.hget(h, key), base, zeroArrOf(l.Sort)))
		}
	}
	fr.bind(in, Val{ts: []Term{base, "0", ln, cp}})
	return h
}

func zeroArrOf(s Sort) Term {
	switch s {
	case SBool:
		return "((as const (Array Int Bool)) false)"
	case SInt:
		return "((as const (Array Int Int)) 0)"
	}
	return "((as const (Array Int " + s.String() + ")) " + zeroOf(s) + ")"
}

func (fr *frame) slice(b *ssa.BasicBlock, in *ssa.Slice, reach Term, h Heap) Heap {
	x := fr.x
	xv := fr.get(in.X)
	var base, off, ln, cp Term
	switch t := in.X.Type().Underlying().(type) {
	case *types.Slice:
		base, off, ln, cp = xv.ts[0], xv.ts[1], xv.ts[2], xv.ts[3]
	case *types.Pointer: // pointer to array
		at := t.Elem().Underlying().(*types.Array)
		if xv.fp != nil {
			x.note("slice of array behind a field pointer")
			fr.bind(in, x.freshVal("slice", in.Type()))
			return h
		}
		base, off, ln, cp = xv.ts[0], "0", num(at.Len()), num(at.Len())
	case *types.Basic: // string
		lo, hi := Term("0"), app("strlen", xv.ts[0])
		if in.Low != nil {
			lo = fr.get(in.Low).ts[0]
		}
		if in.High != nil {
			hi = fr.get(in.High).ts[0]
		}
		fr.safety(b, "slice-bounds", in.Pos(), reach, and(app("<=", "0", lo), app("<=", lo, hi), app("<=", hi, app("strlen", xv.ts[0]))))
		x.sc.declFun("substr", []string{"Int", "Int", "Int"}, "Int")
		r := app("substr", xv.ts[0], lo, hi)
		x.sc.assert(implies(and(app("<=", "0", lo), app("<=", lo, hi)), eq(app("strlen", r), app("-", hi, lo))))
		fr.bind(in, Val{ts: []Term{r}})
		return h
	default:
		x.note("slice of " + in.X.Type().String())
		fr.bind(in, x.freshVal("slice", in.Type()))
		return h
	}
	lo, hi, mx := Term("0"), ln, cp
	if in.Low != nil {
		lo = fr.get(in.Low).ts[0]
	}
	if in.High != nil {
		hi = fr.get(in.High).ts[0]
	}
	if in.Max != nil {
		mx = fr.get(in.Max).ts[0]
	}
	fr.safety(b, "slice-bounds", in.Pos(), reach, and(app("<=", "0", lo), app("<=", lo, hi), app("<=", hi, mx), app("<=", mx, cp)))
	fr.bind(in, Val{ts: []Term{base, app("+", off, lo), app("-", hi, lo), app("-", mx, lo)}})
	return h
}

// ---- maps -----------------------------------------------------------------

func mapKeys(mt types.Type) (has string, val string, card string) {
	k := typeKey(mt)
	return "M:" + k + ":has", "M:" + k + ":val", "M:" + k + ":card"
}

func (x *Enc) regMap(mt *types.Map) bool {
	if nLeaves(mt.Key()) != 1 || leaves(mt.Key())[0].Sort != SInt {
		if _, isArr := mt.Key().Underlying().(*types.Array); !isArr {
			return false
		}
	}
	has, val, card := mapKeys(mt)
	x.regKey(has, "(Array Int (Array Int Bool))")
	for _, l := range leaves(mt.Elem()) {
		x.regKey(val+l.Path, "(Array Int "+heapSort(l.Sort)+")")
	}
	x.regKey(card, "(Array Int Int)")
	return true
}

// mapKeyTerm turns a key value into an Int (array keys via their content id).
func (x *Enc) mapKeyTerm(kt types.Type, v Val) Term {
	if at, ok := kt.Underlying().(*types.Array); ok {
		return app("bytesval", v.ts[0], "0", num(at.Len()))
	}
	return v.ts[0]
}

func (fr *frame) makeMap(in *ssa.MakeMap, reach Term, h Heap) Heap {
	x := fr.x
	mt := in.Type().Underlying().(*types.Map)
	r := sym(fr.name(in))
	x.sc.declConst(r, "Int")
	x.regKey(keyAlloc, "Int")
	x.sc.assert(app(">", r, x.hget(h, keyAlloc)))
	x.sc.assert(app(">", r, "0"))
	h = h.set(keyAlloc, r)
	if x.regMap(mt) {
		has, _, card := mapKeys(mt)
		h = x.hset(h, has, app("store", x.hget(h, has), r, "((as const (Array Int Bool)) false)"))
		h = x.hset(h, card, app("store", x.hget(h, card), r, "0"))
	}
	fr.vals[in] = Val{ts: []Term{r}}
	return h
}

func (fr *frame) mapUpdate(b *ssa.BasicBlock, in *ssa.MapUpdate, reach Term, h Heap) Heap {
	x := fr.x
	mt := in.Map.Type().Underlying().(*types.Map)
	m := fr.get(in.Map).ts[0]
	fr.safety(b, "nil-map-write", in.Pos(), reach, not(eq(m, "0")))
	if !x.regMap(mt) {
		x.note("map with composite key: " + mt.String())
		return x.bumpEpoch(h)
	}
	k := x.mapKeyTerm(mt.Key(), fr.get(in.Key))
	v := fr.get(in.Value)
	has, val, card := mapKeys(mt)
	hasM := app("select", x.hget(h, has), m)
	oldCard := app("select", x.hget(h, card), m)
	h = x.hset(h, card, app("store", x.hget(h, card), m, ite(app("select", hasM, k), oldCard, app("+", oldCard, "1"))))
	h = x.hset(h, has, app("store", x.hget(h, has), m, app("store", hasM, k, "true")))
	for i, l := range leaves(mt.Elem()) {
		key := val + l.Path
		h = x.hset(h, key, app("store", x.hget(h, key), m, app("store", app("select", x.hget(h, key), m), k, v.ts[i])))
	}
	if mapIsLocal(in.Map) {
		return h // a map no other code can see: pure functions of the visible state are unaffected
	}
	return x.bumpEpoch(h)
}

// mapIsLocal: the map is made in this function and only ever used as the operand of map operations here.
func mapIsLocal(v ssa.Value) bool {
	mm, ok := v.(*ssa.MakeMap)
	if !ok || mm.Referrers() == nil {
		return false
	}
	for _, r := range *mm.Referrers() {
		switch r := r.(type) {
		case *ssa.DebugRef:
		case *ssa.MapUpdate:
			if r.Map != v || r.Key == v || r.Value == v {
				return false
			}
		case *ssa.Lookup:
			if r.X != v {
				return false
			}
		case *ssa.Range:
		case *ssa.Call:
			if b, isB := r.Call.Value.(*ssa.Builtin); !isB || (b.Name() != "len" && b.Name() != "delete") {
				return false
			}
		default:
			return false
		}
	}
	return true
}

func (x *Enc) mapLookup(h Heap, mt *types.Map, m Term, kv Val) (Val, Term) {
	if !x.regMap(mt) {
		x.note("map with composite key: " + mt.String())
		return x.freshVal("mapval", mt.Elem()), x.freshConst("mapok", "Bool")
	}
	k := x.mapKeyTerm(mt.Key(), kv)
	has, val, _ := mapKeys(mt)
	ok := and(not(eq(m, "0")), app("select", app("select", x.hget(h, has), m), k))
	ls := leaves(mt.Elem())
	z := zeroVal(mt.Elem())
	out := Val{ts: make([]Term, len(ls))}
	for i, l := range ls {
		out.ts[i] = ite(ok, app("select", app("select", x.hget(h, val+l.Path), m), k), z.ts[i])
	}
	return out, ok
}

func (fr *frame) lookup(b *ssa.BasicBlock, in *ssa.Lookup, reach Term, h Heap) Heap {
	x := fr.x
	mt, isMap := in.X.Type().Underlying().(*types.Map)
	if !isMap { // string index
		xv := fr.get(in.X)
		idx := fr.get(in.Index).ts[0]
		fr.safety(b, "index", in.Pos(), reach, and(app("<=", "0", idx), app("<", idx, app("strlen", xv.ts[0]))))
		x.sc.declFun("strat", []string{"Int", "Int"}, "Int")
		r := app("strat", xv.ts[0], idx)
		x.sc.assert(and(app("<=", "0", r), app("<", r, "256")))
		fr.bind(in, Val{ts: []Term{r}})
		return h
	}
	v, ok := x.mapLookup(h, mt, fr.get(in.X).ts[0], fr.get(in.Index))
	if in.CommaOk {
		fr.bind(in, Val{ts: append(append([]Term{}, v.ts...), ok)})
	} else {
		fr.bind(in, v)
	}
	x.sc.assert(implies(reach, x.typeFacts(mt.Elem(), Val{ts: fr.vals[in].ts[:len(v.ts)]}, h)))
	return h
}

func (fr *frame) next(in *ssa.Next, reach Term, h Heap) Heap {
	x := fr.x
	// (ok bool, k K, v V)
	res := x.freshVal("next", in.Type())
	tp := in.Type().(*types.Tuple)
	rng := in.Iter.(*ssa.Range)
	if mt, isMap := rng.X.Type().Underlying().(*types.Map); isMap && !in.IsString {
		m := fr.get(rng.X).ts[0]
		klo, khi := tupleRange(tp, 1)
		vlo, vhi := tupleRange(tp, 2)
		kt, vt := tp.At(1).Type(), tp.At(2).Type()
		var facts []Term
		if !isInvalid(kt) && !isInvalid(vt) && khi > klo && vhi > vlo {
			lv, ok := x.mapLookup(h, mt, m, Val{ts: res.ts[klo:khi]})
			facts = append(facts, ok)
			for i := range lv.ts {
				facts = append(facts, eq(res.ts[vlo+i], lv.ts[i]))
			}
		} else if !isInvalid(kt) && khi > klo {
			_, ok := x.mapLookup(h, mt, m, Val{ts: res.ts[klo:khi]})
			facts = append(facts, ok)
		} else if isInvalid(kt) && !isInvalid(vt) && vhi > vlo && x.regMap(mt) {
			// `for _, v := range m`: v is the value stored under some (unnamed) key of the map
			wk := x.freshValNamed(fr.name(in)+"!key", mt.Key())
			x.sc.assert(x.typeFacts(mt.Key(), wk, h))
			lv, ok := x.mapLookup(h, mt, m, wk)
			facts = append(facts, ok)
			for i := range lv.ts {
				facts = append(facts, eq(res.ts[vlo+i], lv.ts[i]))
			}
		}
		x.sc.assert(implies(and(reach, res.ts[0]), and(facts...)))
	}
	x.sc.assert(implies(reach, x.typeFacts(in.Type(), res, h)))
	fr.bind(in, res)
	return h
}

func isInvalid(t types.Type) bool {
	b, ok := t.(*types.Basic)
	return ok && b.Kind() == types.Invalid
}

func calleeName(c *ssa.CallCommon) string {
	if c.IsInvoke() {
		return c.Method.FullName()
	}
	if f := c.StaticCallee(); f != nil {
		s := f.String()
		if f.Origin() != nil {
			s = f.Origin().String()
		}
		if i := strings.Index(s, "["); i >= 0 && !strings.HasPrefix(s, "(") {
			s = s[:i]
		}
		// methods of generic types: (*pkg.T[D]).M -> (*pkg.T).M, the key contracts are registered under
		if strings.HasPrefix(s, "(") {
			if i, j := strings.Index(s, "["), strings.Index(s, "])."); i >= 0 && j > i {
				s = s[:i] + s[j+1:]
			}
		}
		return s
	}
	if b, ok := c.Value.(*ssa.Builtin); ok {
		return "builtin." + b.Name()
	}
	return ""
}

// blockReaches: there is a control-flow path from a to b.
func blockReaches(a, b *ssa.BasicBlock) bool {
	seen := map[*ssa.BasicBlock]bool{}
	stack := []*ssa.BasicBlock{a}
	for len(stack) > 0 {
		n := stack[len(stack)-1]
		stack = stack[:len(stack)-1]
		if n == b {
			return true
		}
		if seen[n] {
			continue
		}
		seen[n] = true
		stack = append(stack, n.Succs...)
	}
	return false
}
