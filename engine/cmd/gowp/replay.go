package main

// Replay of a refuted postcondition on the real code.
//
// When the solver refutes an `ensures` obligation (status sat) of a function whose parameters and results are all
// scalars (integers, booleans, named types over them), whose receiver - if any - is not used by the body, and whose
// clause is plain Go (no ghost state, old(), quantifiers), the model's parameter values are turned into a Go test:
//
//	results := f(values...)          // the real function, compiled from /repo's working tree
//	if !clause(values..., results...) { t.Fatalf("VERIF-REPLAY-VIOLATED ...") }
//
// compiled into the function's package through `go test -overlay` (nothing is written into the repository; the
// package's own _test.go files are replaced by empty ones so that test-only imports that do not build offline cannot
// get in the way). A test that fails with the marker is a failing input demonstrated on the real code: the VIOLATION
// line then carries no `no-failing-input-found` suffix and the replay file contains the test and its output.
// Anything else (not replayable, build failure, the concrete run satisfies the clause) leaves the suffix in place.

import (
	"context"
	"encoding/json"
	"fmt"
	"go/types"
	"os"
	"os/exec"
	"path/filepath"
	"regexp"
	"strings"
	"time"

	"golang.org/x/tools/go/ssa"
	"golang.org/x/tools/imports"
)

var specOnlyRe = regexp.MustCompile(`verif_(old|prev|calls|lastarg|lastargn|lastres|lastresn|forall|exists|fresh|ptr|same|haskey|le64|istype|fst|snd|fst3|snd3|thd3)\b`)

func isScalarType(t types.Type) bool {
	b, ok := t.Underlying().(*types.Basic)
	if !ok {
		return false
	}
	return b.Info()&(types.IsInteger|types.IsBoolean) != 0
}

// modelValue extracts the value of an SMT constant from a (get-model) answer.
func modelValue(model, name string) (string, bool) {
	q := regexp.QuoteMeta(name)
	re := regexp.MustCompile(`\(define-fun\s+\|?` + q + `\|?\s+\(\)\s+(Int|Bool)\s+([^()\s]+|\(-\s*\d+\))\s*\)`)
	m := re.FindStringSubmatch(model)
	if m == nil {
		return "", false
	}
	v := strings.TrimSpace(m[2])
	if strings.HasPrefix(v, "(") {
		v = "-" + strings.TrimSpace(strings.Trim(strings.TrimPrefix(strings.TrimSpace(v[1:len(v)-1]), "-"), " "))
	}
	return v, true
}

func tryReplay(eng *Engine, verif, prop string, ob *Obligation, b *strings.Builder) bool {
	say := func(f string, a ...any) { fmt.Fprintf(b, "\n--- replay: "+f+"\n", a...) }
	con, cl := ob.Con, ob.Cl
	if ob.Kind != "ensures" || con == nil || cl == nil || con.IsClosure || cl.GoText == "" || cl.ParamText == "" {
		say("not attempted (not a postcondition of a declared function)")
		return false
	}
	if cl.TypeParams != "" {
		say("not attempted (generic function)")
		return false
	}
	if specOnlyRe.MatchString(cl.GoText) {
		say("not attempted (the clause refers to ghost state, old() or quantifiers: not executable Go)")
		return false
	}
	fn := eng.findFunction(con)
	if fn == nil || fn.Signature == nil {
		say("not attempted (function not found)")
		return false
	}
	sig := fn.Signature
	hasRecv := sig.Recv() != nil
	params := fn.Params
	if hasRecv {
		if refs := params[0].Referrers(); refs != nil {
			for _, r := range *refs {
				if _, dbg := r.(*ssa.DebugRef); !dbg {
					say("not attempted (the receiver is used by the function: its state is not reconstructed from the model)")
					return false
				}
			}
		}
		params = params[1:]
	}
	for _, p := range params {
		if !isScalarType(p.Type()) {
			say("not attempted (parameter %s has non-scalar type %s)", p.Name(), p.Type())
			return false
		}
	}
	for i := 0; i < sig.Results().Len(); i++ {
		if !isScalarType(sig.Results().At(i).Type()) {
			say("not attempted (result %d has non-scalar type)", i)
			return false
		}
	}
	// values from the model
	names := con.SynParams
	np := len(fn.Params)
	var argExprs []string
	var decls []string
	// declared type of each synthetic parameter, as written in the source (package qualifiers as imported there)
	typeText := map[string]string{}
	for _, part := range splitTop(cl.ParamText, ',') {
		fs := strings.Fields(strings.TrimSpace(part))
		if len(fs) >= 2 {
			typeText[fs[0]] = strings.Join(fs[1:], " ")
		}
	}
	for i, p := range fn.Params {
		if i >= len(names) {
			say("not attempted (parameter names)")
			return false
		}
		n := names[i]
		if hasRecv && i == 0 {
			decls = append(decls, fmt.Sprintf("\tvar %s %s", n, typeText[n]))
			continue
		}
		term, ok := ob.ParamTerms[n]
		if !ok {
			say("not attempted (no SMT term for parameter %s)", n)
			return false
		}
		val, ok := modelValue(ob.Model, strings.Trim(term, "|"))
		if !ok {
			val = "0" // unconstrained in the model
			if bt, isB := p.Type().Underlying().(*types.Basic); isB && bt.Info()&types.IsBoolean != 0 {
				val = "false"
			}
		}
		decls = append(decls, fmt.Sprintf("\t%s := %s(%s)", n, typeText[n], val))
		argExprs = append(argExprs, n)
	}
	var resNames []string
	for i := np; i < len(names); i++ {
		resNames = append(resNames, names[i])
	}
	call := fn.Name() + "(" + strings.Join(argExprs, ", ") + ")"
	if hasRecv {
		call = names[0] + "." + call
	}
	var src strings.Builder
	pkgName := fn.Pkg.Pkg.Name()
	// imports: those of the source file that declares the function (unused ones are pruned below)
	srcFile := filepath.Join(eng.repo, strings.TrimPrefix(fn.Pkg.Pkg.Path(), "github.com/bloxapp/ssv/"), con.SrcFile)
	fmt.Fprintf(&src, "package %s\n\n%s\nimport \"testing\"\nimport \"reflect\"\n\n", pkgName, fileImportsText(srcFile, eng.cfiles, fn.Pkg.Pkg.Path()))
	fmt.Fprintf(&src, "func verif_implies(a, b bool) bool { return !a || b }\nfunc verif_iff(a, b bool) bool { return a == b }\n")
	fmt.Fprintf(&src, "func verif_raw(a any) int {\n\tv := reflect.ValueOf(a)\n\tswitch {\n\tcase v.CanInt():\n\t\treturn int(v.Int())\n\tcase v.CanUint():\n\t\treturn int(v.Uint())\n\tcase v.Kind() == reflect.Bool:\n\t\tif v.Bool() {\n\t\t\treturn 1\n\t\t}\n\t}\n\treturn 0\n}\n\n")
	fmt.Fprintf(&src, "func verif_replay_clause(%s) bool { return %s }\n\n", cl.ParamText, cl.GoText)
	fmt.Fprintf(&src, "func TestVerifReplay(t *testing.T) {\n%s\n", strings.Join(decls, "\n"))
	if len(resNames) > 0 {
		fmt.Fprintf(&src, "\t%s := %s\n", strings.Join(resNames, ", "), call)
	} else {
		fmt.Fprintf(&src, "\t%s\n", call)
	}
	fmt.Fprintf(&src, "\tif !verif_replay_clause(%s) {\n\t\tt.Fatalf(\"VERIF-REPLAY-VIOLATED %s: inputs %%v results %%v\", []any{%s}, []any{%s})\n\t}\n}\n",
		strings.Join(names, ", "), strings.ReplaceAll(ob.Name, `"`, `'`), strings.Join(argExprs, ", "), strings.Join(resNames, ", "))
	formatted, err := imports.Process("zz_verif_replay_test.go", []byte(src.String()), &imports.Options{Comments: true, FormatOnly: false})
	if err != nil {
		say("not attempted (generated test does not parse: %v)\n%s", err, src.String())
		return false
	}
	// overlay: the replay test plus blanked existing tests
	tmp, err := os.MkdirTemp(os.Getenv("TMPDIR"), "gowp-replay-")
	if err != nil {
		say("not attempted (%v)", err)
		return false
	}
	defer os.RemoveAll(tmp)
	pkgDir := filepath.Dir(srcFile)
	testFile := filepath.Join(tmp, "replay_test.go")
	os.WriteFile(testFile, formatted, 0o644)
	blank := filepath.Join(tmp, "blank_test.go")
	os.WriteFile(blank, []byte("package "+pkgName+"\n"), 0o644)
	blankX := filepath.Join(tmp, "blankx_test.go")
	os.WriteFile(blankX, []byte("package "+pkgName+"_test\n"), 0o644)
	ov := map[string]string{filepath.Join(pkgDir, "zz_verif_replay_test.go"): testFile}
	if ents, err := os.ReadDir(pkgDir); err == nil {
		for _, e := range ents {
			if strings.HasSuffix(e.Name(), "_test.go") {
				data, _ := os.ReadFile(filepath.Join(pkgDir, e.Name()))
				if regexp.MustCompile(`(?m)^package\s+\w+_test\b`).Match(data) {
					ov[filepath.Join(pkgDir, e.Name())] = blankX
				} else {
					ov[filepath.Join(pkgDir, e.Name())] = blank
				}
			}
		}
	}
	ovData, _ := json.Marshal(map[string]any{"Replace": ov})
	ovFile := filepath.Join(tmp, "overlay.json")
	os.WriteFile(ovFile, ovData, 0o644)
	ctx, cancel := context.WithTimeout(context.Background(), 180*time.Second)
	defer cancel()
	rel, _ := filepath.Rel(eng.repo, pkgDir)
	cmd := exec.CommandContext(ctx, "go", "test", "-overlay", ovFile, "-vet=off", "-count=1", "-timeout", "60s", "-run", "^TestVerifReplay$", "./"+rel+"/")
	cmd.Dir = eng.repo
	cmd.Env = append(os.Environ(), "GOFLAGS=-mod=mod", "GOPROXY=off", "GOSUMDB=off", "GOTOOLCHAIN=local")
	out, _ := cmd.CombinedOutput()
	fmt.Fprintf(b, "\n--- replay test (compiled into %s through go test -overlay)\n%s\n--- replay output\n%s\n", rel, formatted, out)
	if strings.Contains(string(out), "VERIF-REPLAY-VIOLATED") {
		say("CONFIRMED on the real code: the function, run on the model's inputs, violates the clause")
		return true
	}
	say("not confirmed (the concrete run did not violate the clause, or the test did not build)")
	return false
}

// fileImportsText: the import declarations of a Go source file, as text (the replay test reuses them; unused ones are
// removed by imports.Process), plus the contract files' extra imports for that package.
func fileImportsText(path string, cfiles []*ContractFile, pkgPath string) string {
	data, err := os.ReadFile(path)
	if err != nil {
		return ""
	}
	re := regexp.MustCompile(`(?s)import\s*\((.*?)\)`)
	var b strings.Builder
	if m := re.FindSubmatch(data); m != nil {
		b.WriteString("import (\n" + string(m[1]) + "\n")
		for _, cf := range cfiles {
			if filepath.Dir(cf.Path) != filepath.Dir(path) {
				continue
			}
			for _, im := range cf.Imports {
				fs := strings.Fields(im)
				if len(fs) == 2 && !strings.Contains(string(m[1]), fs[1]) {
					b.WriteString("\t" + fs[0] + " " + fs[1] + "\n")
				}
			}
		}
		b.WriteString(")\n")
	}
	return b.String()
}
