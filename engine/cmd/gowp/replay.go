package main

// Replay of a refuted obligation on the real code.
//
// When the solver refutes (status sat) a postcondition (`ensures`) or a run-time-check obligation (`safety`) of a
// function whose parameters are scalars (integers, booleans, named types over them) or byte slices and whose
// receiver - if any - is not used by the body, the model's parameter values are turned into a Go test:
//
//	results := f(values...)                       // the real function, compiled from /repo's working tree
//	if !clause(values..., results...) { fail }    // postconditions: the clause must be plain Go (no ghost state)
//	a panic in f fails the test                   // safety obligations
//
// compiled into the function's package through `go test -overlay` (nothing is written into the repository; the
// package's own _test.go files are replaced by empty ones so that test-only imports that do not build offline cannot
// get in the way). A test that fails with the marker is a failing input demonstrated on the real code: the VIOLATION
// line then carries no `no-failing-input-found` suffix and the replay file contains the test and its output.
// Anything else (not replayable, build failure, the concrete run does not fail) leaves the suffix in place.

import (
	"context"
	"encoding/json"
	"fmt"
	"go/types"
	"os"
	"os/exec"
	"path/filepath"
	"regexp"
	"strconv"
	"strings"
	"time"

	"golang.org/x/tools/go/ssa"
	"golang.org/x/tools/imports"
)

var specOnlyRe = regexp.MustCompile(`verif_(old|prev|calls|snap|lastarg|lastargn|lastres|lastresn|nthres|forall|exists|fresh|allocated|base|ptr|resval|argval|same|haskey|le64|istype|fst|snd|fst3|snd3|thd3)\b`)

func isScalarType(t types.Type) bool {
	b, ok := t.Underlying().(*types.Basic)
	if !ok {
		return false
	}
	return b.Info()&(types.IsInteger|types.IsBoolean) != 0
}

func isByteSlice(t types.Type) bool {
	s, ok := t.Underlying().(*types.Slice)
	if !ok {
		return false
	}
	b, ok := s.Elem().Underlying().(*types.Basic)
	return ok && b.Kind() == types.Uint8
}

// evalInModel re-runs the solver that refuted the obligation and asks for the values of the given terms.
func evalInModel(ob *Obligation, terms []Term) ([]string, bool) {
	if len(terms) == 0 {
		return nil, true
	}
	dir, err := os.MkdirTemp(os.Getenv("TMPDIR"), "gowp-eval-")
	if err != nil {
		return nil, false
	}
	defer os.RemoveAll(dir)
	file := filepath.Join(dir, "eval.smt2")
	text := ob.Script.render(ob.Goal, false, ob.NAsserts) + "(get-value (" + strings.Join(terms, " ") + "))\n"
	if os.WriteFile(file, []byte(text), 0o644) != nil {
		return nil, false
	}
	for _, s := range solvers {
		if s.name != ob.Solver {
			continue
		}
		r := runSolver(context.Background(), s, file, 30)
		if r.status != "sat" {
			return nil, false
		}
		rest := r.out[strings.Index(r.out, "sat")+3:]
		tree := parseSx(strings.TrimSpace(rest))
		if tree == nil || len(tree.kids) != len(terms) {
			return nil, false
		}
		var vals []string
		for _, pair := range tree.kids {
			if len(pair.kids) != 2 {
				return nil, false
			}
			v := pair.kids[1]
			switch {
			case v.kids == nil:
				vals = append(vals, v.atom)
			case len(v.kids) == 2 && v.kids[0].atom == "-" && v.kids[1].kids == nil:
				vals = append(vals, "-"+v.kids[1].atom)
			default:
				return nil, false
			}
		}
		return vals, true
	}
	return nil, false
}

func tryReplay(eng *Engine, verif, prop string, ob *Obligation, b *strings.Builder) bool {
	say := func(f string, a ...any) { fmt.Fprintf(b, "\n--- replay: "+f+"\n", a...) }
	con, cl := ob.Con, ob.Cl
	if con == nil || con.IsClosure || (ob.Kind != "ensures" && ob.Kind != "safety") {
		say("not attempted (only postconditions and run-time-check obligations of declared functions are replayed)")
		return false
	}
	if ob.Kind == "ensures" {
		if cl == nil || cl.GoText == "" || cl.ParamText == "" {
			say("not attempted (clause text unavailable)")
			return false
		}
		if specOnlyRe.MatchString(cl.GoText) {
			say("not attempted (the clause refers to ghost state, old() or quantifiers: not executable Go)")
			return false
		}
	}
	anyClause := cl
	if anyClause == nil {
		for _, l := range [][]*Clause{con.Ensures, con.Requires, con.Givens} {
			for _, c := range l {
				if anyClause == nil && c.ParamText != "" {
					anyClause = c
				}
			}
		}
	}
	if anyClause != nil && anyClause.TypeParams != "" {
		say("not attempted (generic function)")
		return false
	}
	fn := eng.findFunction(con)
	if fn == nil || fn.Signature == nil {
		say("not attempted (function not found)")
		return false
	}
	sig := fn.Signature
	hasRecv := sig.Recv() != nil
	recvFromModel := false
	if hasRecv {
		if refs := fn.Params[0].Referrers(); refs != nil {
			for _, r := range *refs {
				if _, dbg := r.(*ssa.DebugRef); !dbg {
					// a used receiver can be rebuilt from the model only if it is a scalar or a byte slice value
					if rt := fn.Params[0].Type(); isScalarType(rt) || isByteSlice(rt) {
						recvFromModel = true
						break
					}
					say("not attempted (the receiver is used by the function: its state is not reconstructed from the model)")
					return false
				}
			}
		}
	}
	// declared type of each parameter as written in the source: from the source AST via the synthetic parameter list
	typeText := map[string]string{}
	if anyClause != nil {
		for _, part := range splitTop(anyClause.ParamText, ',') {
			fs := strings.Fields(strings.TrimSpace(part))
			if len(fs) >= 2 {
				typeText[fs[0]] = strings.Join(fs[1:], " ")
			}
		}
	}
	if anyClause == nil {
		// no clause to take the source spelling from (zero-annotation sweep): print the types with the import names
		// of the function's own file
		srcPath := eng.fset.Position(fn.Pos()).Filename
		alias := fileImportAliases(srcPath)
		q := func(p *types.Package) string {
			if p == fn.Pkg.Pkg {
				return ""
			}
			if a, ok := alias[p.Path()]; ok {
				return a
			}
			return p.Name()
		}
		for i, p := range fn.Params {
			if i < len(con.SynParams) {
				typeText[con.SynParams[i]] = types.TypeString(p.Type(), q)
			}
		}
	}
	names := con.SynParams
	np := len(fn.Params)
	var argExprs, decls []string
	for i, p := range fn.Params {
		if i >= len(names) || typeText[names[i]] == "" {
			say("not attempted (parameter names / types unavailable)")
			return false
		}
		n := names[i]
		if hasRecv && i == 0 && !recvFromModel {
			decls = append(decls, fmt.Sprintf("\tvar %s %s", n, typeText[n]))
			continue
		}
		leaves := ob.ParamTerms[n]
		switch {
		case isScalarType(p.Type()) && len(leaves) == 1:
			vals, ok := evalInModel(ob, leaves)
			if !ok {
				say("not attempted (no model value for parameter %s)", n)
				return false
			}
			decls = append(decls, fmt.Sprintf("\t%s := %s(%s)", n, typeText[n], vals[0]))
		case isByteSlice(p.Type()) && len(leaves) == 4:
			hdr, ok := evalInModel(ob, []Term{leaves[0], leaves[2]})
			if !ok {
				say("not attempted (no model value for slice %s)", n)
				return false
			}
			ln, _ := strconv.Atoi(hdr[1])
			if hdr[0] == "0" {
				decls = append(decls, fmt.Sprintf("\tvar %s %s // nil", n, typeText[n]))
				break
			}
			if ln < 0 || ln > 1<<16 {
				say("not attempted (slice %s has length %s in the model)", n, hdr[1])
				return false
			}
			var elems []Term
			for k := 0; k < ln; k++ {
				if ob.ByteHeap == "" {
					elems = append(elems, "0") // the function never reads the bytes: any content will do
					continue
				}
				elems = append(elems, app("select", app("select", ob.ByteHeap, leaves[0]), sidx(leaves[1], num(int64(k)))))
			}
			ev, ok := evalInModel(ob, elems)
			if !ok {
				say("not attempted (no model values for the contents of %s)", n)
				return false
			}
			for k := range ev {
				if v, err := strconv.Atoi(ev[k]); err != nil || v < 0 || v > 255 {
					ev[k] = "0" // cells the model leaves outside the byte range are not read by the refuting path
				}
			}
			decls = append(decls, fmt.Sprintf("\t%s := %s{%s}", n, typeText[n], strings.Join(ev, ", ")))
		default:
			say("not attempted (parameter %s of type %s is neither a scalar nor a byte slice)", n, p.Type())
			return false
		}
		if !(hasRecv && i == 0) {
			argExprs = append(argExprs, n)
		}
	}
	var resNames []string
	for i := np; i < len(names); i++ {
		resNames = append(resNames, names[i])
	}
	call := fn.Name() + "(" + strings.Join(argExprs, ", ") + ")"
	if hasRecv {
		call = names[0] + "." + call
	}
	var src strings.Builder
	pkgName := fn.Pkg.Pkg.Name()
	srcFile := filepath.Join(eng.repo, strings.TrimPrefix(fn.Pkg.Pkg.Path(), "github.com/bloxapp/ssv/"), con.SrcFile)
	fmt.Fprintf(&src, "package %s\n\n%s\nimport \"testing\"\nimport \"reflect\"\n\n", pkgName, fileImportsText(srcFile, eng.cfiles))
	fmt.Fprintf(&src, "func verif_implies(a, b bool) bool { return !a || b }\nfunc verif_iff(a, b bool) bool { return a == b }\n")
	fmt.Fprintf(&src, "func verif_raw(a any) int {\n\tv := reflect.ValueOf(a)\n\tswitch {\n\tcase v.CanInt():\n\t\treturn int(v.Int())\n\tcase v.CanUint():\n\t\treturn int(v.Uint())\n\tcase v.Kind() == reflect.Bool:\n\t\tif v.Bool() {\n\t\t\treturn 1\n\t\t}\n\t}\n\treturn 0\n}\n\n")
	marker := "VERIF-REPLAY-VIOLATED " + strings.ReplaceAll(ob.Name, `"`, `'`)
	if ob.Kind == "ensures" {
		fmt.Fprintf(&src, "func verif_replay_clause(%s) bool { return %s }\n\n", cl.ParamText, cl.GoText)
	}
	fmt.Fprintf(&src, "func TestVerifReplay(t *testing.T) {\n%s\n", strings.Join(decls, "\n"))
	if ob.Kind == "safety" {
		fmt.Fprintf(&src, "\tdefer func() {\n\t\tif r := recover(); r != nil {\n\t\t\tt.Fatalf(\"%s: the function panicked on the model's input: %%v\", r)\n\t\t}\n\t}()\n", marker)
		for i := range resNames {
			resNames[i] = "_"
		}
	}
	if len(resNames) > 0 {
		op := ":="
		if ob.Kind == "safety" {
			op = "="
		}
		fmt.Fprintf(&src, "\t%s %s %s\n", strings.Join(resNames, ", "), op, call)
	} else {
		fmt.Fprintf(&src, "\t%s\n", call)
	}
	if ob.Kind == "ensures" {
		fmt.Fprintf(&src, "\tif !verif_replay_clause(%s) {\n\t\tt.Fatalf(\"%s: inputs %%v results %%v\", []any{%s}, []any{%s})\n\t}\n",
			strings.Join(names, ", "), marker, strings.Join(argExprs, ", "), strings.Join(resNames, ", "))
	}
	src.WriteString("}\n")
	formatted, err := imports.Process("zz_verif_replay_test.go", []byte(src.String()), &imports.Options{Comments: true})
	if err != nil {
		say("not attempted (generated test does not parse: %v)\n%s", err, src.String())
		return false
	}
	tmp, err := os.MkdirTemp(os.Getenv("TMPDIR"), "gowp-replay-")
	if err != nil {
		say("not attempted (%v)", err)
		return false
	}
	defer os.RemoveAll(tmp)
	pkgDir := filepath.Dir(srcFile)
	testFile := filepath.Join(tmp, "replay_test.go")
	os.WriteFile(testFile, formatted, 0o644)
	blank := filepath.Join(tmp, "blank_test.go")
	os.WriteFile(blank, []byte("package "+pkgName+"\n"), 0o644)
	blankX := filepath.Join(tmp, "blankx_test.go")
	os.WriteFile(blankX, []byte("package "+pkgName+"_test\n"), 0o644)
	ov := map[string]string{filepath.Join(pkgDir, "zz_verif_replay_test.go"): testFile}
	xtest := regexp.MustCompile(`(?m)^package\s+\w+_test\b`)
	if ents, err := os.ReadDir(pkgDir); err == nil {
		for _, e := range ents {
			if strings.HasSuffix(e.Name(), "_test.go") {
				data, _ := os.ReadFile(filepath.Join(pkgDir, e.Name()))
				if xtest.Match(data) {
					ov[filepath.Join(pkgDir, e.Name())] = blankX
				} else {
					ov[filepath.Join(pkgDir, e.Name())] = blank
				}
			}
		}
	}
	// quic-go v0.33 (pulled in by libp2p) refuses to compile with the installed Go and its qtls fork panics at init;
	// the QUIC transport is never exercised by a replay, so both files are replaced for the test build only
	modCache := filepath.Join(os.Getenv("HOME"), "go", "pkg", "mod")
	if gp := os.Getenv("GOMODCACHE"); gp != "" {
		modCache = gp
	}
	for target, repl := range map[string]string{
		"github.com/quic-go/quic-go@v0.33.0/internal/qtls/go121.go": "qtls_go121.go",
		"github.com/quic-go/qtls-go1-20@v0.2.3/unsafe.go":           "qtls20_unsafe.go",
	} {
		rp := filepath.Join(verif, "engine", "replay_ov", repl)
		if _, err := os.Stat(rp); err == nil {
			ov[filepath.Join(modCache, target)] = rp
		}
	}
	ovData, _ := json.Marshal(map[string]any{"Replace": ov})
	ovFile := filepath.Join(tmp, "overlay.json")
	os.WriteFile(ovFile, ovData, 0o644)
	ctx, cancel := context.WithTimeout(context.Background(), 300*time.Second)
	defer cancel()
	rel, _ := filepath.Rel(eng.repo, pkgDir)
	cmd := exec.CommandContext(ctx, "go", "test", "-overlay", ovFile, "-vet=off", "-count=1", "-timeout", "60s", "-run", "^TestVerifReplay$", "./"+rel+"/")
	cmd.Dir = eng.repo
	cmd.Env = append(os.Environ(), "GOFLAGS=-mod=mod", "GOPROXY=off", "GOSUMDB=off", "GOTOOLCHAIN=local")
	out, _ := cmd.CombinedOutput()
	fmt.Fprintf(b, "\n--- replay test (compiled into %s through go test -overlay)\n%s\n--- replay output\n%s\n", rel, formatted, out)
	if strings.Contains(string(out), "VERIF-REPLAY-VIOLATED") {
		say("CONFIRMED on the real code: the function, run on the model's inputs, fails")
		return true
	}
	say("not confirmed (the concrete run did not fail, or the test did not build)")
	return false
}

// fileImportAliases: import path -> name used for it in the file (explicit alias, else none recorded).
func fileImportAliases(path string) map[string]string {
	out := map[string]string{}
	data, err := os.ReadFile(path)
	if err != nil {
		return out
	}
	re := regexp.MustCompile(`(?m)^\s*(\w+)\s+"([^"]+)"\s*$`)
	for _, m := range re.FindAllStringSubmatch(string(data), -1) {
		if m[1] != "import" && m[1] != "_" {
			out[m[2]] = m[1]
		}
	}
	return out
}

// fileImportsText: the import declarations of a Go source file, as text (the replay test reuses them; unused ones are
// removed by imports.Process), plus the contract files' extra imports for that package.
func fileImportsText(path string, cfiles []*ContractFile) string {
	data, err := os.ReadFile(path)
	if err != nil {
		return ""
	}
	re := regexp.MustCompile(`(?s)import\s*\((.*?)\)`)
	var b strings.Builder
	if m := re.FindSubmatch(data); m != nil {
		b.WriteString("import (\n" + string(m[1]) + "\n")
		for _, cf := range cfiles {
			if filepath.Dir(cf.Path) != filepath.Dir(path) {
				continue
			}
			for _, im := range cf.Imports {
				fs := strings.Fields(im)
				if len(fs) == 2 && !strings.Contains(string(m[1]), fs[1]) {
					b.WriteString("\t" + fs[0] + " " + fs[1] + "\n")
				}
			}
		}
		b.WriteString(")\n")
	}
	return b.String()
}
