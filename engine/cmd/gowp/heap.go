package main

import (
	"fmt"
	"go/types"
	"strings"
)

// Heap is a persistent map from heap key to the SMT term of its current version.
// Keys absent from m denote the version named by base.
type Heap struct {
	base string
	m    map[string]Term
}

func (h Heap) set(key string, t Term) Heap {
	n := make(map[string]Term, len(h.m)+1)
	for k, v := range h.m {
		n[k] = v
	}
	n[key] = t
	return Heap{h.base, n}
}

const (
	keyEpoch = "$epoch"
	keyAlloc = "$alloc"
)

// regKey registers a heap key with its SMT sort; a newly seen key forces another fixpoint round.
func (x *Enc) regKey(key, sort string) {
	if old, ok := x.keys[key]; ok {
		if old != sort {
			panic(fmt.Sprintf("heap key %s used at two sorts: %s / %s", key, old, sort))
		}
		return
	}
	x.keys[key] = sort
	x.changed = true
}

func (x *Enc) hget(h Heap, key string) Term {
	if t, ok := h.m[key]; ok {
		return t
	}
	srt, ok := x.keys[key]
	if !ok {
		panic("hget of unregistered key " + key)
	}
	name := sym("H" + h.base + "!" + cleanKey(key))
	x.sc.declConst(name, srt)
	return name
}

// hsetNamed stores a new version under a fresh name (keeps terms small).
func (x *Enc) hset(h Heap, key string, t Term) Heap {
	name := x.freshConst("H!"+cleanKey(key), x.keys[key])
	x.sc.assert(eq(name, t))
	return h.set(key, name)
}

func (x *Enc) bumpEpoch(h Heap) Heap {
	x.regKey(keyEpoch, "Int")
	return h.set(keyEpoch, x.freshConst("epoch", "Int"))
}

func (x *Enc) havocAll(h Heap, reach Term) Heap {
	x.regKey(keyAlloc, "Int")
	x.regKey(keyEpoch, "Int")
	oldAlloc := x.hget(h, keyAlloc)
	x.nfresh++
	nh := Heap{base: fmt.Sprintf("%s_hv%d", h.base, x.nfresh), m: map[string]Term{}}
	x.sc.assert(app(">=", x.hget(nh, keyAlloc), oldAlloc))
	// ghost call counters are not program state: a havoc does not touch them
	for _, k := range sortedKeys(x.keys) {
		if strings.HasPrefix(k, "$cnt:") || strings.HasPrefix(k, "$arg:") || strings.HasPrefix(k, "$res:") || strings.HasPrefix(k, "$snap:") {
			nh.m[k] = x.hget(h, k)
		}
	}
	// stated assumption of the contract (havoc_preserves): uncontracted callees do not write these struct types
	if x.con != nil {
		for _, k := range sortedKeys(x.keys) {
			if x.noPreserve[k] {
				continue // the contracted callee being applied stores to this key itself
			}
			for _, tn := range x.con.HavocPreserves {
				if (strings.HasPrefix(k, "F:") || strings.HasPrefix(k, "P:")) && strings.Contains(k, tn+":") {
					nh.m[k] = x.hget(h, k)
				}
				if strings.HasPrefix(tn, "key:") && strings.HasPrefix(k, tn[4:]) {
					nh.m[k] = x.hget(h, k)
				}
			}
		}
	}
	// ... nor the scalar arrays embedded in them (e.g. SSVMessage.MsgID [56]byte): their elements live in the
	// shared element heap, at the addresses the embedding function gives
	if x.con != nil {
		for _, n := range sortedKeys(x.embArrs) {
			ea := x.embArrs[n]
			if ea.key == "" || x.noPreserve[ea.key] {
				continue
			}
			if _, reg := x.keys[ea.key]; !reg {
				continue
			}
			if _, whole := nh.m[ea.key]; whole {
				continue
			}
			for _, tn := range x.con.HavocPreserves {
				if !strings.HasPrefix(tn, "key:") && strings.HasSuffix(typeKey(ea.structT), tn) {
					x.embAddr(ea.structT, ea.field, "0") // declares the embedding function
					x.sc.assert(fmt.Sprintf("(forall ((p Int)) (! (= (select %s (%s p)) (select %s (%s p))) :pattern ((%s p))))", x.hget(nh, ea.key), n, x.hget(h, ea.key), n, n))
					break
				}
			}
		}
	}
	// variables captured by the closure under contract live in cells only the enclosing function and its
	// closures can name: callees cannot write them
	for _, n := range sortedKeys(x.topDerefs) {
		d := x.topDerefs[n]
		if d.ptr.fp != nil || len(d.ptr.ts) == 0 {
			continue
		}
		for _, k := range x.keysOfAlloc(d.typ) {
			if _, ok := x.keys[k]; !ok {
				continue
			}
			x.sc.assert(eq(app("select", x.hget(nh, k), d.ptr.ts[0]), app("select", x.hget(h, k), d.ptr.ts[0])))
		}
	}
	// frame: local (non-escaping) allocations keep their contents
	for _, la := range x.localAllocs {
		for _, k := range la.keys {
			if _, ok := x.keys[k]; !ok {
				continue
			}
			x.sc.assert(eq(app("select", x.hget(nh, k), la.ref), app("select", x.hget(h, k), la.ref)))
		}
	}
	return nh
}

func (x *Enc) freshConst(hint string, sort string) Term {
	x.nfresh++
	name := sym(fmt.Sprintf("%s!%s!%d", x.curPrefix, hint, x.nfresh))
	x.sc.declConst(name, sort)
	return name
}

func (x *Enc) freshVal(hint string, t types.Type) Val {
	ls := leaves(t)
	v := Val{ts: make([]Term, len(ls))}
	for i, l := range ls {
		v.ts[i] = x.freshConst(hint+l.Path, l.Sort.String())
	}
	return v
}

// typeFacts: range facts for all scalar leaves of a value of type t.
func (x *Enc) typeFacts(t types.Type, v Val, h Heap) Term {
	// tuples (multi-value call results): the facts of each component
	if tp, ok := t.(*types.Tuple); ok && tp.Len() > 0 {
		var fs []Term
		for i := 0; i < tp.Len(); i++ {
			lo, hi := tupleRange(tp, i)
			if hi <= len(v.ts) {
				fs = append(fs, x.typeFacts(tp.At(i).Type(), Val{ts: v.ts[lo:hi]}, h))
			}
		}
		return and(fs...)
	}
	ls := leaves(t)
	var fs []Term
	for i, l := range ls {
		if i >= len(v.ts) {
			break
		}
		if l.Typ != nil {
			fs = append(fs, rangeFact(l.Typ, v.ts[i]))
			_, isPtr := l.Typ.Underlying().(*types.Pointer)
			_, isMap := l.Typ.Underlying().(*types.Map)
			if (isPtr || isMap) && h.m != nil {
				// references to existing objects (maps included) lie below the allocation top
				x.regKey(keyAlloc, "Int")
				fs = append(fs, app("<=", v.ts[i], x.hget(h, keyAlloc)))
				if isMap {
					fs = append(fs, app(">=", v.ts[i], "0"))
				}
			}
		}
	}
	if _, ok := t.Underlying().(*types.Slice); ok && len(v.ts) == 4 {
		fs = append(fs, sliceWF(v))
		if h.m != nil {
			// backing arrays of existing slices were allocated before now
			x.regKey(keyAlloc, "Int")
			fs = append(fs, app("<=", v.ts[0], x.hget(h, keyAlloc)))
		}
	}
	return and(fs...)
}

func sliceWF(v Val) Term {
	// capacity bound: no Go slice has more than 2^62 elements
	return and(app(">=", v.ts[0], "0"), app(">=", v.ts[1], "0"), app(">=", v.ts[2], "0"), app("<=", v.ts[2], v.ts[3]), app("<=", v.ts[3], "4611686018427387904"),
		implies(eq(v.ts[0], "0"), and(eq(v.ts[2], "0"), eq(v.ts[3], "0"))))
}

// ---- memory layout -------------------------------------------------------

func fieldKey(structT types.Type, path string) string { return "F:" + typeKey(structT) + ":" + path }
func ptrKey(t types.Type, path string) string          { return "P:" + typeKey(t) + ":" + path }
func elemKeyOf(t types.Type, path string) string       { return "E:" + typeKey(t) + ":" + path }

func embName(structT types.Type, field string) string {
	return sym("emb!" + cleanKey(typeKey(structT)) + "." + field)
}

// embArr: an array-typed field embedded in a struct; its elements live in the element heap `key` at the address
// the embedding function gives (havoc_preserves of the struct type covers them, see havocAll).
type embArr struct {
	structT types.Type
	field   string
	key     string
}

func (x *Enc) embAddr(structT types.Type, field string, base Term) Term {
	n := embName(structT, field)
	if _, seen := x.embArrs[n]; !seen {
		if x.embArrs == nil {
			x.embArrs = map[string]embArr{}
		}
		ea := embArr{structT: structT, field: field}
		if st, ok := structT.Underlying().(*types.Struct); ok && !strings.Contains(field, ".") {
			for i := 0; i < st.NumFields(); i++ {
				if at, isArr := st.Field(i).Type().Underlying().(*types.Array); isArr && st.Field(i).Name() == field && isScalarElem(at.Elem()) {
					ea.key = elemKeyOf(at.Elem(), "")
				}
			}
		}
		x.embArrs[n] = ea
		x.changed = true
	}
	if _, ok := x.sc.decls[n]; !ok {
		x.sc.declFun(n, []string{"Int"}, "Int")
		inv := sym("embinv!" + cleanKey(typeKey(structT)) + "." + field)
		x.sc.declFun(inv, []string{"Int"}, "Int")
		// injective; addresses of embedded parts lie at or above the address of the enclosing object
		// (so parts of an object allocated during the call are themselves above the entry allocation top)
		x.sc.assert(fmt.Sprintf("(forall ((p Int)) (! (and (= (%s (%s p)) p) (=> (> p 0) (>= (%s p) p))) :pattern ((%s p))))", inv, n, n, n))
		// different embedded fields live at different addresses: each embedding function has its own tag
		x.sc.declFun("embtag", []string{"Int"}, "Int")
		x.nEmb++
		x.sc.assert(fmt.Sprintf("(forall ((p Int)) (! (= (embtag (%s p)) %d) :pattern ((%s p))))", n, x.nEmb, n))
	}
	return app(n, base)
}

func (x *Enc) elemAddr(elemT types.Type, base, idx Term) Term {
	n := sym("elemaddr!" + cleanKey(typeKey(elemT)))
	if _, ok := x.sc.decls[n]; !ok {
		x.sc.declFun(n, []string{"Int", "Int"}, "Int")
		i1 := sym("elemaddr_b!" + cleanKey(typeKey(elemT)))
		i2 := sym("elemaddr_i!" + cleanKey(typeKey(elemT)))
		x.sc.declFun(i1, []string{"Int"}, "Int")
		x.sc.declFun(i2, []string{"Int"}, "Int")
		x.sc.assert(fmt.Sprintf("(forall ((b Int) (i Int)) (! (and (= (%s (%s b i)) b) (= (%s (%s b i)) i) (> (%s b i) 0) (=> (> b 0) (>= (%s b i) b))) :pattern ((%s b i))))", i1, n, i2, n, n, n, n))
		// an element's address is neither the address of an allocation of its own (tag 0) nor of an embedded field
		// (positive tags) nor of an element of another type: each addressing function has its own negative tag
		x.sc.declFun("embtag", []string{"Int"}, "Int")
		x.nElem++
		x.sc.assert(fmt.Sprintf("(forall ((b Int) (i Int)) (! (= (embtag (%s b i)) (- %d)) :pattern ((%s b i))))", n, x.nElem, n))
	}
	return app(n, base, idx)
}

// isScalarElem: element types stored directly in E heaps (non-aggregate)
func isScalarElem(t types.Type) bool { return !isAggregate(t) }

// loadAt reads a value of type t from the location denoted by ptr.
func (x *Enc) loadAt(h Heap, ptr Val, t types.Type) Val {
	if ptr.fp != nil {
		fp := ptr.fp
		ls := leaves(t)
		v := Val{ts: make([]Term, len(ls))}
		for i, l := range ls {
			key := fp.key + l.Path
			switch fp.kind {
			case 1:
				x.regKey(key, heapSort(l.Sort))
				v.ts[i] = app("select", x.hget(h, key), fp.base)
				x.storedRefWF(h, l, v.ts[i])
			case 2:
				x.regKey(key, "(Array Int "+heapSort(l.Sort)+")")
				v.ts[i] = app("select", app("select", x.hget(h, key), fp.base), fp.idx)
			}
		}
		return v
	}
	p := ptr.ts[0]
	switch u := t.Underlying().(type) {
	case *types.Struct:
		var ts []Term
		for i := 0; i < u.NumFields(); i++ {
			f := u.Field(i)
			fv := x.loadAt(h, x.fieldAddr(ptr, t, i), f.Type())
			ts = append(ts, fv.ts...)
		}
		return Val{ts: ts}
	case *types.Array:
		ls := leaves(u.Elem())
		if isScalarElem(u.Elem()) && len(ls) == 1 {
			key := elemKeyOf(u.Elem(), "")
			x.regKey(key, "(Array Int "+heapSort(ls[0].Sort)+")")
			return Val{ts: []Term{app("select", x.hget(h, key), p)}}
		}
		x.note("load of array with composite elements: " + t.String())
		return x.freshVal("arr", t)
	default:
		ls := leaves(t)
		v := Val{ts: make([]Term, len(ls))}
		for i, l := range ls {
			key := ptrKey(t, l.Path)
			x.regKey(key, heapSort(l.Sort))
			v.ts[i] = app("select", x.hget(h, key), p)
			x.storedRefWF(h, l, v.ts[i])
		}
		return v
	}
}

// storedRefWF: heap well-formedness - a reference (pointer or map) read from a heap cell denotes an object that
// exists in that heap (or nil): it lies at or below the heap's allocation top. Only for ground terms.
func (x *Enc) storedRefWF(h Heap, l Leaf, t Term) {
	if l.Typ == nil || h.m == nil || strings.Contains(t, "qbv$") {
		return
	}
	_, isPtr := l.Typ.Underlying().(*types.Pointer)
	_, isMap := l.Typ.Underlying().(*types.Map)
	if !isPtr && !isMap {
		return
	}
	x.regKey(keyAlloc, "Int")
	x.sc.assert(and(app(">=", t, "0"), app("<=", t, x.hget(h, keyAlloc))))
}

// storeAt writes v (of type t) to the location denoted by ptr.
func (x *Enc) storeAt(h Heap, ptr Val, t types.Type, v Val) Heap {
	if ptr.fp != nil {
		fp := ptr.fp
		for i, l := range leaves(t) {
			key := fp.key + l.Path
			switch fp.kind {
			case 1:
				x.regKey(key, heapSort(l.Sort))
				h = x.hset(h, key, app("store", x.hget(h, key), fp.base, v.ts[i]))
			case 2:
				x.regKey(key, "(Array Int "+heapSort(l.Sort)+")")
				cur := x.hget(h, key)
				h = x.hset(h, key, app("store", cur, fp.base, app("store", app("select", cur, fp.base), fp.idx, v.ts[i])))
			}
		}
		return h
	}
	p := ptr.ts[0]
	switch u := t.Underlying().(type) {
	case *types.Struct:
		off := 0
		for i := 0; i < u.NumFields(); i++ {
			f := u.Field(i)
			n := nLeaves(f.Type())
			h = x.storeAt(h, x.fieldAddr(ptr, t, i), f.Type(), Val{ts: v.ts[off : off+n]})
			off += n
		}
		return h
	case *types.Array:
		ls := leaves(u.Elem())
		if isScalarElem(u.Elem()) && len(ls) == 1 {
			key := elemKeyOf(u.Elem(), "")
			x.regKey(key, "(Array Int "+heapSort(ls[0].Sort)+")")
			return x.hset(h, key, app("store", x.hget(h, key), p, v.ts[0]))
		}
		x.note("store of array with composite elements: " + t.String())
		return h
	default:
		for i, l := range leaves(t) {
			key := ptrKey(t, l.Path)
			x.regKey(key, heapSort(l.Sort))
			h = x.hset(h, key, app("store", x.hget(h, key), p, v.ts[i]))
		}
		return h
	}
}

// fieldAddr: address of field i of the struct (type st, possibly named) at ptr.
func (x *Enc) fieldAddr(ptr Val, st types.Type, i int) Val {
	u := st.Underlying().(*types.Struct)
	f := u.Field(i)
	if ptr.fp != nil {
		x.note("field address through an element/field pointer")
		return Val{ts: []Term{x.freshConst("faddr", "Int")}}
	}
	if isAggregate(f.Type()) {
		return Val{ts: []Term{x.embAddr(st, f.Name(), ptr.ts[0])}}
	}
	return Val{fp: &fieldPtr{kind: 1, base: ptr.ts[0], key: fieldKey(st, "."+f.Name()), typ: f.Type()}}
}

// indexAddr: address of element idx of the backing array base (element type et).
func (x *Enc) indexAddr(base, idx Term, et types.Type) Val {
	if isAggregate(et) {
		return Val{ts: []Term{x.elemAddr(et, base, idx)}}
	}
	return Val{fp: &fieldPtr{kind: 2, base: base, idx: idx, key: elemKeyOf(et, ""), typ: et}}
}

// keysOfType: all heap keys that hold parts of an object of type t allocated at a Ref (for zeroing / frames).
func (x *Enc) keysOfAlloc(t types.Type) []string {
	var ks []string
	switch u := t.Underlying().(type) {
	case *types.Struct:
		for i := 0; i < u.NumFields(); i++ {
			f := u.Field(i)
			if isAggregate(f.Type()) {
				continue // lives at an embedded address
			}
			for _, l := range leaves(f.Type()) {
				ks = append(ks, fieldKey(t, "."+f.Name())+l.Path)
			}
		}
	case *types.Array:
		if isScalarElem(u.Elem()) && nLeaves(u.Elem()) == 1 {
			ks = append(ks, elemKeyOf(u.Elem(), ""))
		}
	default:
		for _, l := range leaves(t) {
			ks = append(ks, ptrKey(t, l.Path))
		}
	}
	return ks
}
