package main

import "strings"

// Trigger selection for spec quantifiers whose body contains a nested quantifier. z3 infers patterns for an outer
// quantifier only from the part of its body outside nested quantifiers; a clause such as
//     forall i :: 0 <= i && i < len(s) ==> (exists v :: ... s[i] ...)
// then gets no pattern at all and is never instantiated by E-matching. findTrigger picks, from the whole body, a
// smallest uninterpreted term (select / sidx / uninterpreted function applications only) that mentions every
// variable bound by this quantifier and none bound by a nested one.

type sx struct {
	atom string
	kids []*sx
}

func parseSx(s string) *sx {
	pos := 0
	var parse func() *sx
	parse = func() *sx {
		for pos < len(s) && (s[pos] == ' ' || s[pos] == '\n' || s[pos] == '\t') {
			pos++
		}
		if pos >= len(s) {
			return nil
		}
		if s[pos] == '(' {
			pos++
			n := &sx{}
			for {
				for pos < len(s) && (s[pos] == ' ' || s[pos] == '\n' || s[pos] == '\t') {
					pos++
				}
				if pos >= len(s) {
					return n
				}
				if s[pos] == ')' {
					pos++
					return n
				}
				k := parse()
				if k == nil {
					return n
				}
				n.kids = append(n.kids, k)
			}
		}
		start := pos
		if s[pos] == '|' {
			pos++
			for pos < len(s) && s[pos] != '|' {
				pos++
			}
			pos++
		} else {
			for pos < len(s) && s[pos] != ' ' && s[pos] != '(' && s[pos] != ')' && s[pos] != '\n' && s[pos] != '\t' {
				pos++
			}
		}
		return &sx{atom: s[start:pos]}
	}
	return parse()
}

func (n *sx) String() string {
	if n.kids == nil && n.atom != "" {
		return n.atom
	}
	var parts []string
	for _, k := range n.kids {
		parts = append(parts, k.String())
	}
	return "(" + strings.Join(parts, " ") + ")"
}

var interpretedOps = map[string]bool{
	"ite": true, "+": true, "-": true, "*": true, "div": true, "mod": true, "and": true, "or": true, "not": true,
	"=": true, "<": true, "<=": true, ">": true, ">=": true, "=>": true, "forall": true, "exists": true, "let": true,
	"store": true, "distinct": true, "!": true, "as": true, "xor": true, "abs": true,
}

type sxInfo struct {
	vars    map[string]bool // bound variables (qbv$...) mentioned
	hasInterp bool
}

func findTrigger(body string, binders []string) string {
	root := parseSx(body)
	if root == nil {
		return ""
	}
	own := map[string]bool{}
	for _, b := range binders {
		own[b] = true
	}
	var best *sx
	bestLen := 0
	var walk func(n *sx) sxInfo
	walk = func(n *sx) sxInfo {
		info := sxInfo{vars: map[string]bool{}}
		if n.kids == nil {
			if strings.HasPrefix(n.atom, "qbv$") || strings.HasPrefix(n.atom, "|qbv$") {
				info.vars[n.atom] = true
			}
			return info
		}
		if len(n.kids) == 0 {
			return info
		}
		head := n.kids[0]
		if head.kids != nil || interpretedOps[head.atom] {
			info.hasInterp = true
		}
		// numerals in application position cannot occur; literal integers as arguments are fine
		for i, k := range n.kids {
			if i == 0 && k.kids == nil {
				continue
			}
			ki := walk(k)
			for v := range ki.vars {
				info.vars[v] = true
			}
			if ki.hasInterp {
				info.hasInterp = true
			}
		}
		if info.hasInterp {
			return info
		}
		// candidate: mentions every own binder and nothing foreign
		for v := range info.vars {
			if !own[v] {
				return info
			}
		}
		for b := range own {
			if !info.vars[b] {
				return info
			}
		}
		s := n.String()
		if best == nil || len(s) < bestLen {
			best, bestLen = n, len(s)
		}
		return info
	}
	walk(root)
	if best == nil {
		return ""
	}
	return best.String()
}
