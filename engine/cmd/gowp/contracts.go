package main

import (
	"bufio"
	"fmt"
	"os"
	"regexp"
	"strings"

	"golang.org/x/tools/go/ssa"
)

// Clause is one requires/ensures/invariant/axiom/lemma expression.
type Clause struct {
	Kind    string // requires, ensures, invariant, axiom, lemma, decreases
	Label   string
	Loop    int    // for invariants
	Text    string // original text
	GoText  string // rewritten Go expression
	SynName string // name of the synthetic function carrying it
	Line    int
	File    string
	// parameter list / type parameter list of the synthetic function (used to re-emit the clause as executable Go
	// when a refuted postcondition is replayed)
	ParamText  string
	TypeParams string
}

type Contract struct {
	Key        string // as written after "func": e.g. (*priorityQueue).pop, pop, or full extern header
	FuncName   string
	RecvType   string // "" | "T" | "*T"
	Extern     bool
	ExternHdr  string // full Go header for extern contracts
	Requires   []*Clause
	Givens     []*Clause // ghost hypotheses: assumed in the body, antecedent of ensures at call sites
	Assumes    []*Clause // assume[COUNTER:label]: assumed right after every call the ghost counter watches (listed as an assumption)
	Ensures    []*Clause
	Invariants []*Clause
	InvVars    map[int]string // loop ordinal -> "a T, b U"
	Modifies   []string       // expressions; "all(x.f)" for whole field
	HasMod     bool
	Pure       bool     // function itself is pure (result is a function of args + heap epoch)
	PureParams []string // function-typed params / interface methods treated as pure inside this function
	Inline     bool
	Safety     bool
	NoFrame    bool
	Trusted    bool // contract is assumed, body not verified (reported)
	Bounded    string
	File       string
	Line       int
	SrcFile    string // source file defining the function (for imports)
	Pkg        string
	Props      []string // property ids this contract serves (from //@ props)
	Counts     [][2]string // ghost call counters: (name, callee pattern)
	Shared     []string    // locations other goroutines may write: havoced at blocking operations
	HavocPreserves []string // struct types (pkg.Type) assumed not to be written by uncontracted callees
	SweepFn        *ssa.Function // synthetic contract of `gowp sweep`: the function itself
	NonNil         []string // callees whose first result is assumed non-nil
	OnlyCalls      []string // only_calls P1, P2: every call site of the function's own body matches one of the patterns
	Snaps          []*Clause // snap[COUNTER:name] expr: ghost record of expr's value in the state right before each call COUNTER watches
	PropOnly       map[string]string // clause label / "count[name]" -> the only property it is generated for
	// contracts on function literals ("Parent$N")
	IsClosure    bool
	FreeVars     string   // "name T, ..." : captured variables (by reference), in the literal's scope
	FreeVarNames []string
	NOwnParams   int
	// resolved
	CalleeKey string
	// synthetic param list text (names) in order
	SynParams []string
}

type SpecDecl struct {
	Text    string // "func name(args) T"
	SrcFile string
}

type ContractFile struct {
	Path      string
	PkgName   string
	Contracts []*Contract
	Specs     []SpecDecl
	Axioms    []*Clause
	Lemmas    []*Clause
	Imports   []string // extra imports for extern files
	Macros    map[string]string
	Rigid     []string
	Callers   []CallersDecl
}

// CallersDecl: //@ callers[PROP,..] PATTERN: f1, f2 - within the package, only the listed functions (and function
// literals inside them) contain a call site matching PATTERN.
type CallersDecl struct {
	Props   []string
	Pattern string
	Allowed []string
	Line    int
}

var macroRe = regexp.MustCompile(`\$(\w+)`)

func (cf *ContractFile) expand(s string) string {
	for i := 0; i < 8 && strings.Contains(s, "$"); i++ {
		s = macroRe.ReplaceAllStringFunc(s, func(m string) string {
			if v, ok := cf.Macros[m[1:]]; ok {
				return "(" + v + ")"
			}
			return m
		})
	}
	return s
}

// expandAll applies macros to every clause of the file.
func (cf *ContractFile) expandAll() {
	for _, c := range cf.Contracts {
		for _, l := range [][]*Clause{c.Requires, c.Givens, c.Assumes, c.Snaps, c.Ensures, c.Invariants} {
			for _, cl := range l {
				cl.Text = cf.expand(cl.Text)
			}
		}
	}
	for _, l := range [][]*Clause{cf.Axioms, cf.Lemmas} {
		for _, cl := range l {
			cl.Text = cf.expand(cl.Text)
		}
	}
}

var labelRe = regexp.MustCompile(`^(\w+)\[([\w.\-:]+)\]\s*(.*)$`)

func parseContractFile(path string) (*ContractFile, error) {
	f, err := os.Open(path)
	if err != nil {
		return nil, err
	}
	defer f.Close()
	cf := &ContractFile{Path: path, Macros: map[string]string{}}
	var lastMacro string
	var cur *Contract
	curSrc := ""
	sc := bufio.NewScanner(f)
	sc.Buffer(make([]byte, 1<<20), 1<<20)
	ln := 0
	var lastClause *Clause
	var lastList *[]string
	for sc.Scan() {
		ln++
		line := strings.TrimSpace(sc.Text())
		if strings.HasPrefix(line, "package ") && cf.PkgName == "" {
			cf.PkgName = strings.TrimSpace(strings.TrimPrefix(line, "package "))
			continue
		}
		if !strings.HasPrefix(line, "//@") {
			continue
		}
		body := strings.TrimSpace(line[3:])
		if body == "" {
			continue
		}
		if strings.HasPrefix(body, "|") { // continuation
			cont := strings.TrimSpace(body[1:])
			if lastMacro != "" {
				cf.Macros[lastMacro] += " " + cont
			} else if lastClause != nil {
				lastClause.Text += " " + cont
			} else if lastList != nil && len(*lastList) > 0 {
				(*lastList)[len(*lastList)-1] += " " + cont
			}
			continue
		}
		lastClause = nil
		lastList = nil
		lastMacro = ""
		word := body
		rest := ""
		if i := strings.IndexAny(body, " \t"); i >= 0 {
			word, rest = body[:i], strings.TrimSpace(body[i+1:])
		}
		label := ""
		if m := labelRe.FindStringSubmatch(body); m != nil {
			word, label, rest = m[1], m[2], m[3]
		}
		switch word {
		case "macro":
			i := strings.Index(rest, "=")
			if i < 0 {
				return nil, fmt.Errorf("%s:%d: macro needs NAME = text", path, ln)
			}
			lastMacro = strings.TrimSpace(rest[:i])
			cf.Macros[lastMacro] = strings.TrimSpace(rest[i+1:])
		case "rigid":
			// state-independent pure functions (configuration getters): no heap-epoch argument
			for _, m := range splitTop(rest, ',') {
				cf.Rigid = append(cf.Rigid, strings.TrimSpace(m))
			}
		case "import":
			cf.Imports = append(cf.Imports, rest)
		case "file":
			curSrc = rest
		case "func":
			cur = &Contract{Key: rest, File: path, Line: ln, InvVars: map[int]string{}}
			parseFuncKey(cur)
			cf.Contracts = append(cf.Contracts, cur)
		case "extern":
			// extern func (s *pkg.T) M(a int) (result T)
			cur = &Contract{Key: rest, File: path, Line: ln, InvVars: map[int]string{}, Extern: true, ExternHdr: rest, Trusted: true}
			cf.Contracts = append(cf.Contracts, cur)
		case "spec":
			cf.Specs = append(cf.Specs, SpecDecl{Text: rest, SrcFile: curSrcOf(cur, curSrc)})
		case "callers":
			i := strings.Index(rest, ":")
			if i < 0 || label == "" {
				return nil, fmt.Errorf("%s:%d: callers[PROPS] PATTERN: f1, f2", path, ln)
			}
			cd := CallersDecl{Pattern: strings.TrimSpace(rest[:i]), Line: ln, Props: strings.Split(label, "-")}
			for _, a := range splitTop(rest[i+1:], ',') {
				if a = strings.TrimSpace(a); a != "" {
					cd.Allowed = append(cd.Allowed, a)
				}
			}
			cf.Callers = append(cf.Callers, cd)
			lastList = &cf.Callers[len(cf.Callers)-1].Allowed
		case "axiom", "lemma":
			c := &Clause{Kind: word, Label: label, Text: rest, Line: ln, File: path}
			if word == "axiom" {
				cf.Axioms = append(cf.Axioms, c)
			} else {
				cf.Lemmas = append(cf.Lemmas, c)
			}
			lastClause = c
		default:
			if cur == nil {
				return nil, fmt.Errorf("%s:%d: directive %q outside a func contract", path, ln, word)
			}
			switch word {
			case "requires":
				c := &Clause{Kind: word, Label: label, Text: rest, Line: ln, File: path}
				cur.Requires = append(cur.Requires, c)
				lastClause = c
			case "given":
				c := &Clause{Kind: word, Label: label, Text: rest, Line: ln, File: path}
				cur.Givens = append(cur.Givens, c)
				lastClause = c
			case "assume":
				// assume[COUNTER:label] expr - a stated assumption about an uncontracted (library) callee: expr, over the
				// function's parameters, holds in the state right after every call the ghost counter COUNTER watches
				if !strings.Contains(label, ":") {
					return nil, fmt.Errorf("%s:%d: assume[COUNTER:label] expr", path, ln)
				}
				c := &Clause{Kind: word, Label: label, Text: rest, Line: ln, File: path}
				cur.Assumes = append(cur.Assumes, c)
				lastClause = c
			case "ensures":
				c := &Clause{Kind: word, Label: label, Text: rest, Line: ln, File: path}
				cur.Ensures = append(cur.Ensures, c)
				lastClause = c
			case "invariant", "step":
				c := &Clause{Kind: word, Label: "", Text: rest, Line: ln, File: path}
				fmt.Sscanf(label, "%d", &c.Loop)
				c.Label = fmt.Sprintf("loop%d_inv%d", c.Loop, len(cur.Invariants))
				if word == "step" {
					c.Label = fmt.Sprintf("loop%d_step%d", c.Loop, len(cur.Invariants))
				}
				// invariant[k:name] / step[k:name]: a descriptive obligation name instead of the ordinal
				if i := strings.Index(label, ":"); i >= 0 && i+1 < len(label) {
					c.Label = fmt.Sprintf("loop%d_%s", c.Loop, label[i+1:])
				}
				cur.Invariants = append(cur.Invariants, c)
				lastClause = c
			case "invvars":
				var k int
				fmt.Sscanf(label, "%d", &k)
				cur.InvVars[k] = rest
			case "modifies":
				cur.HasMod = true
				if rest != "nothing" {
					for _, m := range splitTop(rest, ',') {
						cur.Modifies = append(cur.Modifies, strings.TrimSpace(m))
					}
				}
				lastList = &cur.Modifies
			case "pure":
				if rest == "" {
					cur.Pure = true
				} else {
					for _, m := range splitTop(rest, ',') {
						cur.PureParams = append(cur.PureParams, strings.TrimSpace(m))
					}
				}
			case "freevars":
				cur.FreeVars = rest
			case "havoc_preserves":
				for _, m := range splitTop(rest, ',') {
					cur.HavocPreserves = append(cur.HavocPreserves, strings.TrimSpace(m))
				}
			case "shared":
				for _, m := range splitTop(rest, ',') {
					cur.Shared = append(cur.Shared, strings.TrimSpace(m))
				}
			case "count":
				f := strings.Fields(rest)
				if len(f) != 2 {
					return nil, fmt.Errorf("%s:%d: count needs NAME PATTERN", path, ln)
				}
				cur.Counts = append(cur.Counts, [2]string{f[0], f[1]})
			case "restrict":
				// restrict PROP: label, count[name], ...  - these clauses / counters belong to one property only:
				// they are generated when that property is checked and skipped for the function's other properties
				i := strings.Index(rest, ":")
				if i < 0 {
					return nil, fmt.Errorf("%s:%d: restrict PROP: label, ...", path, ln)
				}
				if cur.PropOnly == nil {
					cur.PropOnly = map[string]string{}
				}
				for _, m := range splitTop(rest[i+1:], ',') {
					if m = strings.TrimSpace(m); m != "" {
						cur.PropOnly[m] = strings.TrimSpace(rest[:i])
					}
				}
			case "only_calls":
				// only_calls P1, P2, ...: a structural frame - the function's own body calls nothing but callees
				// matching these patterns (builtins and conversions aside); any other call site is a violation
				for _, m := range splitTop(rest, ',') {
					if m = strings.TrimSpace(m); m != "" {
						cur.OnlyCalls = append(cur.OnlyCalls, m)
					}
				}
				lastList = &cur.OnlyCalls
			case "snap":
				// snap[COUNTER:name] expr - ghost state: the value of expr (over the function's parameters) in the state
				// right before every call the ghost counter COUNTER watches; read in clauses as snap("name")
				if !strings.Contains(label, ":") {
					return nil, fmt.Errorf("%s:%d: snap[COUNTER:name] expr", path, ln)
				}
				c := &Clause{Kind: word, Label: label, Text: rest, Line: ln, File: path}
				cur.Snaps = append(cur.Snaps, c)
				lastClause = c
			case "nonnil":
				// nonnil PATTERN, ...: the (first) result of these callees is never nil - an assumption about code
				// outside the contract, listed in the evidence
				for _, m := range splitTop(rest, ',') {
					cur.NonNil = append(cur.NonNil, strings.TrimSpace(m))
				}
			case "forbid":
				// forbid PATTERN: the function has no call site (send, select case) matching the pattern
				f := strings.Fields(rest)
				if len(f) != 1 {
					return nil, fmt.Errorf("%s:%d: forbid needs PATTERN", path, ln)
				}
				cur.Counts = append(cur.Counts, [2]string{"!forbid:" + f[0], f[0]})
			case "inline":
				cur.Inline = true
			case "safety":
				cur.Safety = true
			case "noframe":
				cur.NoFrame = true
			case "trusted":
				cur.Trusted = true
			case "bounded":
				cur.Bounded = rest
			case "props":
				cur.Props = strings.Fields(strings.ReplaceAll(rest, ",", " "))
			default:
				return nil, fmt.Errorf("%s:%d: unknown directive %q", path, ln, word)
			}
		}
	}
	cf.expandAll()
	return cf, sc.Err()
}

func curSrcOf(c *Contract, dflt string) string {
	if c != nil && c.SrcFile != "" {
		return c.SrcFile
	}
	return dflt
}

func parseFuncKey(c *Contract) {
	k := strings.TrimSpace(c.Key)
	if strings.HasPrefix(k, "(") {
		i := strings.Index(k, ")")
		c.RecvType = strings.TrimSpace(k[1:i])
		c.FuncName = strings.TrimPrefix(strings.TrimSpace(k[i+1:]), ".")
	} else {
		c.FuncName = k
	}
}

// splitTop splits s on sep at paren/bracket depth 0.
func splitTop(s string, sep byte) []string {
	var out []string
	d := 0
	start := 0
	inStr := byte(0)
	for i := 0; i < len(s); i++ {
		ch := s[i]
		if inStr != 0 {
			if ch == '\\' {
				i++
			} else if ch == inStr {
				inStr = 0
			}
			continue
		}
		switch ch {
		case '"', '\'', '`':
			inStr = ch
		case '(', '[', '{':
			d++
		case ')', ']', '}':
			d--
		default:
			if ch == sep && d == 0 {
				out = append(out, s[start:i])
				start = i + 1
			}
		}
	}
	out = append(out, s[start:])
	return out
}

// findTop finds the first occurrence of tok at depth 0, or -1.
func findTop(s, tok string) int {
	d := 0
	inStr := byte(0)
	for i := 0; i < len(s); i++ {
		ch := s[i]
		if inStr != 0 {
			if ch == '\\' {
				i++
			} else if ch == inStr {
				inStr = 0
			}
			continue
		}
		switch ch {
		case '"', '\'', '`':
			inStr = ch
		case '(', '[', '{':
			d++
		case ')', ']', '}':
			d--
		}
		if d == 0 && strings.HasPrefix(s[i:], tok) {
			// do not confuse "==>" inside "<==>"
			if tok == "==>" && i > 0 && s[i-1] == '<' {
				continue
			}
			return i
		}
	}
	return -1
}

// rewriteSpec turns the specification syntax (==>, <==>, forall/exists x T :: e) into plain Go
// calling verif_implies / verif_iff / verif_forall / verif_exists.
func rewriteSpec(s string) (string, error) {
	s = strings.TrimSpace(s)
	for _, q := range []string{"forall", "exists"} {
		if strings.HasPrefix(s, q+" ") {
			i := findTop(s, "::")
			if i < 0 {
				return "", fmt.Errorf("quantifier without '::' in %q", s)
			}
			binders := strings.TrimSpace(s[len(q):i])
			body, err := rewriteSpec(s[i+2:])
			if err != nil {
				return "", err
			}
			return fmt.Sprintf("verif_%s(func(%s) bool { return %s })", q, binders, body), nil
		}
	}
	if i := findTop(s, "<==>"); i >= 0 {
		l, err := rewriteSpec(s[:i])
		if err != nil {
			return "", err
		}
		r, err := rewriteSpec(s[i+4:])
		if err != nil {
			return "", err
		}
		return fmt.Sprintf("verif_iff(%s, %s)", l, r), nil
	}
	if i := findTop(s, "==>"); i >= 0 {
		l, err := rewriteSpec(s[:i])
		if err != nil {
			return "", err
		}
		r, err := rewriteSpec(s[i+3:])
		if err != nil {
			return "", err
		}
		return fmt.Sprintf("verif_implies(%s, %s)", l, r), nil
	}
	// plain Go expression; descend into parenthesised groups
	var b strings.Builder
	inStr := byte(0)
	for i := 0; i < len(s); i++ {
		ch := s[i]
		if inStr != 0 {
			b.WriteByte(ch)
			if ch == '\\' && i+1 < len(s) {
				i++
				b.WriteByte(s[i])
			} else if ch == inStr {
				inStr = 0
			}
			continue
		}
		if ch == '"' || ch == '\'' || ch == '`' {
			inStr = ch
			b.WriteByte(ch)
			continue
		}
		if ch == '(' {
			j := matchParen(s, i)
			if j < 0 {
				return "", fmt.Errorf("unbalanced parentheses in %q", s)
			}
			inner := s[i+1 : j]
			if strings.Contains(inner, "==>") || strings.Contains(inner, "forall ") || strings.Contains(inner, "exists ") {
				parts := splitTop(inner, ',')
				if ti := strings.TrimSpace(inner); strings.HasPrefix(ti, "forall ") || strings.HasPrefix(ti, "exists ") {
					parts = []string{inner}
				}
				for k, p := range parts {
					r, err := rewriteSpec(p)
					if err != nil {
						return "", err
					}
					parts[k] = r
				}
				inner = strings.Join(parts, ", ")
			}
			b.WriteString("(" + inner + ")")
			i = j
			continue
		}
		b.WriteByte(ch)
	}
	out := b.String()
	out = oldRe.ReplaceAllString(out, "${1}verif_old(")
	out = freshRe.ReplaceAllString(out, "${1}verif_fresh(")
	out = prevRe.ReplaceAllString(out, "${1}verif_prev(")
	out = callsRe.ReplaceAllString(out, "${1}verif_${2}(")
	out = callsRe.ReplaceAllString(out, "${1}verif_${2}(") // again: `same(raw(` - the first match consumed the "("
	out = istypeRe.ReplaceAllString(out, "${1}verif_${2}[")
	return out, nil
}

var callsRe = regexp.MustCompile(`(^|[^\w.])(calls|snap|lastargn|lastarg|lastresn|lastres|nthres|same|raw|fst3|snd3|thd3|fst|snd|le64|haskey|allocated|base)\(`)
var istypeRe = regexp.MustCompile(`(^|[^\w.])(istype|ptr|resval|argval)\[`)
var oldRe = regexp.MustCompile(`(^|[^\w.])old\(`)
var freshRe = regexp.MustCompile(`(^|[^\w.])fresh\(`)
var prevRe = regexp.MustCompile(`(^|[^\w.])prev\(`)

func matchParen(s string, i int) int {
	d := 0
	inStr := byte(0)
	for j := i; j < len(s); j++ {
		ch := s[j]
		if inStr != 0 {
			if ch == '\\' {
				j++
			} else if ch == inStr {
				inStr = 0
			}
			continue
		}
		switch ch {
		case '"', '\'', '`':
			inStr = ch
		case '(':
			d++
		case ')':
			d--
			if d == 0 {
				return j
			}
		}
	}
	return -1
}
