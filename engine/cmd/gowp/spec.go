package main

import (
	"fmt"
	"go/ast"
	"go/token"
	"go/types"
	"strings"
)

// specEnv is the evaluation context of a contract expression.
type specEnv struct {
	x     *Enc
	info  *types.Info
	pkg   *types.Package
	vars  map[string]Val
	heap  Heap
	old   Heap
	inOld bool
	qdepth int
	// two-state loop step clauses: state at the loop header of the current iteration
	prev     Heap
	prevVars map[string]Val
	inPrev   bool
	// loop clauses: entry values of the function's parameters (old(p) of a reassigned parameter)
	entryVars map[string]Val
	// non-nil when a callee's clause is evaluated at a call site: ghost counters of the callee are fresh unknowns
	calleeGhost map[string]Term
}

func (x *Enc) newSpecEnv(ci *clauseInfo, vars map[string]Val, heap, old Heap) *specEnv {
	if vars == nil {
		vars = map[string]Val{}
	}
	return &specEnv{x: x, info: ci.info, pkg: ci.pkg, vars: vars, heap: heap, old: old}
}

func clauseExpr(ci *clauseInfo) ast.Expr {
	rs := ci.decl.Body.List[0].(*ast.ReturnStmt)
	return rs.Results[0]
}

func modExpr(ci *clauseInfo) ast.Expr {
	as := ci.decl.Body.List[0].(*ast.AssignStmt)
	return as.Rhs[0]
}

func (x *Enc) evalBool(env *specEnv, e ast.Expr) Term {
	v := env.eval(e)
	if len(v.ts) != 1 {
		x.note("contract expression is not boolean: " + types.ExprString(e))
		return "true"
	}
	return v.ts[0]
}

func (env *specEnv) typeOf(e ast.Expr) types.Type {
	if tv, ok := env.info.Types[e]; ok {
		return tv.Type
	}
	if id, ok := e.(*ast.Ident); ok {
		if o := env.info.Uses[id]; o != nil {
			return o.Type()
		}
		if o := env.info.Defs[id]; o != nil {
			return o.Type()
		}
	}
	return types.Typ[types.Invalid]
}

func (env *specEnv) h() Heap {
	if env.inOld {
		return env.old
	}
	if env.inPrev {
		return env.prev
	}
	return env.heap
}

func (env *specEnv) fail(e ast.Expr, why string) Val {
	env.x.note(fmt.Sprintf("contract expression not supported (%s): %s", why, types.ExprString(e)))
	t := env.typeOf(e)
	if isInvalid(t) {
		return Val{ts: []Term{env.x.freshConst("specfail", "Bool")}}
	}
	return env.x.freshVal("specfail", t)
}

// evalAddr evaluates an addressable expression to (pointer, pointee type).
type derefVar struct {
	ptr Val
	typ types.Type
}

func (x *Enc) evalAddr(env *specEnv, e ast.Expr) (Val, types.Type, bool) {
	switch e := e.(type) {
	case *ast.ParenExpr:
		return x.evalAddr(env, e.X)
	case *ast.Ident:
		if _, shadowed := env.vars[e.Name]; !shadowed {
			if d, ok := x.topDerefs[e.Name]; ok {
				return d.ptr, d.typ, true
			}
		}
		return Val{}, nil, false
	case *ast.StarExpr:
		return env.eval(e.X), env.typeOf(e), true
	case *ast.SelectorExpr:
		sel, ok := env.info.Selections[e]
		if !ok || sel.Kind() != types.FieldVal {
			return Val{}, nil, false
		}
		// base as address if possible
		var cur Val
		var curT types.Type // type of the struct the pointer refers to
		bt := env.typeOf(e.X)
		if _, isPtr := bt.Underlying().(*types.Pointer); isPtr {
			cur = env.eval(e.X)
			curT = derefType(bt)
		} else {
			p, t, ok := x.evalAddr(env, e.X)
			if !ok {
				return Val{}, nil, false
			}
			cur, curT = p, t
		}
		idx := sel.Index()
		for k, i := range idx {
			st := curT.Underlying().(*types.Struct)
			f := st.Field(i)
			fa := x.fieldAddr(cur, curT, i)
			if k == len(idx)-1 {
				return fa, f.Type(), true
			}
			// intermediate embedded field: pointer or struct
			if _, isPtr := f.Type().Underlying().(*types.Pointer); isPtr {
				cur = x.loadAt(env.h(), fa, f.Type())
				curT = derefType(f.Type())
			} else {
				cur = fa
				curT = f.Type()
			}
		}
	case *ast.IndexExpr:
		bt := env.typeOf(e.X)
		switch t := bt.Underlying().(type) {
		case *types.Slice:
			s := env.eval(e.X)
			i := env.eval(e.Index).ts[0]
			return x.indexAddr(s.ts[0], sidx(s.ts[1], i), t.Elem()), t.Elem(), true
		case *types.Array:
			p, _, ok := x.evalAddr(env, e.X)
			if !ok || p.fp != nil {
				return Val{}, nil, false
			}
			i := env.eval(e.Index).ts[0]
			return x.indexAddr(p.ts[0], i, t.Elem()), t.Elem(), true
		case *types.Pointer:
			at, ok := t.Elem().Underlying().(*types.Array)
			if !ok {
				return Val{}, nil, false
			}
			p := env.eval(e.X)
			i := env.eval(e.Index).ts[0]
			return x.indexAddr(p.ts[0], i, at.Elem()), at.Elem(), true
		}
	}
	return Val{}, nil, false
}

func plus(a, b Term) Term {
	if a == "0" {
		return b
	}
	if b == "0" {
		return a
	}
	if x, ok := constInt(a); ok {
		if y, ok2 := constInt(b); ok2 {
			return num(x + y)
		}
	}
	return app("+", a, b)
}

func minus(a, b Term) Term {
	if b == "0" {
		return a
	}
	if a == b {
		return "0"
	}
	if x, ok := constInt(a); ok {
		if y, ok2 := constInt(b); ok2 {
			return num(x - y)
		}
	}
	return app("-", a, b)
}

func (env *specEnv) eval(e ast.Expr) Val {
	x := env.x
	// constants
	if tv, ok := env.info.Types[e]; ok && tv.Value != nil {
		return x.constantVal(tv.Value, tv.Type)
	}
	switch e := e.(type) {
	case *ast.ParenExpr:
		return env.eval(e.X)
	case *ast.Ident:
		switch e.Name {
		case "nil":
			return zeroVal(env.typeOf(e))
		case "true":
			return Val{ts: []Term{"true"}}
		case "false":
			return Val{ts: []Term{"false"}}
		}
		if env.inOld && env.entryVars != nil {
			if v, ok := env.entryVars[e.Name]; ok {
				return v
			}
		}
		if v, ok := env.vars[e.Name]; ok {
			if v.cellOf != nil && len(v.ts) == 1 {
				return x.loadAt(env.h(), Val{ts: v.ts}, v.cellOf)
			}
			return v
		}
		if d, ok := x.topDerefs[e.Name]; ok {
			// variable captured by the closure under contract: its current content
			return x.loadAt(env.h(), d.ptr, d.typ)
		}
		if obj, ok := env.info.Uses[e].(*types.Var); ok && obj.Pkg() != nil && obj.Parent() == obj.Pkg().Scope() {
			return env.globalLoad(obj)
		}
		if fobj, ok := env.info.Uses[e].(*types.Func); ok {
			n := sym("fn!" + fobj.FullName())
			x.sc.declConst(n, "Int")
			return Val{ts: []Term{n}}
		}
		return env.fail(e, "unknown identifier")
	case *ast.SelectorExpr:
		if sel, ok := env.info.Selections[e]; ok {
			if sel.Kind() != types.FieldVal {
				return env.fail(e, "method value")
			}
			if p, t, ok := x.evalAddr(env, e); ok {
				return x.loadAt(env.h(), p, t)
			}
			// field of a struct value
			v := env.eval(e.X)
			cur := env.typeOf(e.X)
			for _, i := range sel.Index() {
				if pt, isPtr := cur.Underlying().(*types.Pointer); isPtr {
					fa := x.fieldAddr(v, pt.Elem(), i)
					ft := pt.Elem().Underlying().(*types.Struct).Field(i).Type()
					v = x.loadAt(env.h(), fa, ft)
					cur = ft
					continue
				}
				st := cur.Underlying().(*types.Struct)
				lo, hi := fieldRange(st, i)
				v = Val{ts: v.ts[lo:hi]}
				cur = st.Field(i).Type()
			}
			return v
		}
		// qualified identifier: package-level var
		if obj, ok := env.info.Uses[e.Sel].(*types.Var); ok {
			return env.globalLoad(obj)
		}
		if fobj, ok := env.info.Uses[e.Sel].(*types.Func); ok {
			n := sym("fn!" + fobj.FullName())
			x.sc.declConst(n, "Int")
			return Val{ts: []Term{n}}
		}
		return env.fail(e, "selector")
	case *ast.StarExpr:
		return x.loadAt(env.h(), env.eval(e.X), env.typeOf(e))
	case *ast.UnaryExpr:
		switch e.Op {
		case token.NOT:
			return Val{ts: []Term{not(env.eval(e.X).ts[0])}}
		case token.SUB:
			return Val{ts: []Term{app("-", env.eval(e.X).ts[0])}}
		case token.ADD:
			return env.eval(e.X)
		case token.AND:
			p, _, ok := x.evalAddr(env, e.X)
			if ok && p.fp == nil {
				return p
			}
			return env.fail(e, "address-of")
		}
		return env.fail(e, "unary")
	case *ast.BinaryExpr:
		switch e.Op {
		case token.LAND:
			return Val{ts: []Term{and(env.eval(e.X).ts[0], env.eval(e.Y).ts[0])}}
		case token.LOR:
			return Val{ts: []Term{or(env.eval(e.X).ts[0], env.eval(e.Y).ts[0])}}
		}
		a, b := env.eval(e.X), env.eval(e.Y)
		ta, tb := env.typeOf(e.X), env.typeOf(e.Y)
		// untyped nil / constants take the other side's type
		if isUntyped(ta) {
			ta = tb
			if id, ok := ast.Unparen(e.X).(*ast.Ident); ok && id.Name == "nil" {
				a = zeroVal(tb)
			}
		}
		if isUntyped(tb) {
			tb = ta
			if id, ok := ast.Unparen(e.Y).(*ast.Ident); ok && id.Name == "nil" {
				b = zeroVal(ta)
			}
		}
		tr := env.typeOf(e)
		if isUntyped(tr) {
			tr = ta
		}
		// interface compared with concrete value: box
		_, ia := ta.Underlying().(*types.Interface)
		_, ib := tb.Underlying().(*types.Interface)
		if ia && !ib {
			b = x.makeIface(b, tb)
			tb = ta
		} else if ib && !ia {
			a = x.makeIface(a, ta)
			ta = tb
		}
		return x.binop(nil, nil, e.Op, a, b, ta, tb, tr, "true", e.Pos())
	case *ast.IndexExpr:
		bt := env.typeOf(e.X)
		switch t := bt.Underlying().(type) {
		case *types.Map:
			m := env.eval(e.X)
			v, _ := x.mapLookup(env.h(), t, m.ts[0], env.eval(e.Index))
			// ground lookups are named: the ite-shaped lookup term may not occur in quantifier patterns, and a
			// nested map reference m[a][b] is exactly where patterns are needed
			out := Val{ts: make([]Term, len(v.ts))}
			ls := leaves(t.Elem())
			for i, tm := range v.ts {
				if strings.Contains(tm, "qbv$") || !strings.Contains(tm, "(ite ") || i >= len(ls) {
					out.ts[i] = tm
					continue
				}
				c := x.freshConst("speclookup", ls[i].Sort.String())
				x.sc.assert(eq(c, tm))
				out.ts[i] = c
			}
			return out
		case *types.Slice:
			p, et, _ := x.evalAddr(env, e)
			return x.loadAt(env.h(), p, et)
		case *types.Array:
			a := env.eval(e.X)
			if nLeaves(t.Elem()) == 1 && isScalarElem(t.Elem()) {
				return Val{ts: []Term{app("select", a.ts[0], env.eval(e.Index).ts[0])}}
			}
		case *types.Pointer:
			if p, et, ok := x.evalAddr(env, e); ok {
				return x.loadAt(env.h(), p, et)
			}
		case *types.Basic:
			x.sc.declFun("strat", []string{"Int", "Int"}, "Int")
			return Val{ts: []Term{app("strat", env.eval(e.X).ts[0], env.eval(e.Index).ts[0])}}
		}
		return env.fail(e, "index")
	case *ast.SliceExpr:
		bt := env.typeOf(e.X)
		var base, off, ln, cp Term
		switch t := bt.Underlying().(type) {
		case *types.Slice:
			s := env.eval(e.X)
			base, off, ln, cp = s.ts[0], s.ts[1], s.ts[2], s.ts[3]
		case *types.Array:
			p, _, ok := x.evalAddr(env, e.X)
			if !ok || p.fp != nil {
				return env.fail(e, "slice of non-addressable array")
			}
			base, off, ln, cp = p.ts[0], "0", num(t.Len()), num(t.Len())
		case *types.Pointer:
			at, ok := t.Elem().Underlying().(*types.Array)
			if !ok {
				return env.fail(e, "slice")
			}
			p := env.eval(e.X)
			base, off, ln, cp = p.ts[0], "0", num(at.Len()), num(at.Len())
		default:
			return env.fail(e, "slice")
		}
		lo, hi := Term("0"), ln
		if e.Low != nil {
			lo = env.eval(e.Low).ts[0]
		}
		if e.High != nil {
			hi = env.eval(e.High).ts[0]
		}
		return Val{ts: []Term{base, plus(off, lo), minus(hi, lo), minus(cp, lo)}}
	case *ast.CallExpr:
		return env.call(e)
	case *ast.TypeAssertExpr:
		v := env.eval(e.X)
		return x.unbox(v.ts[1], env.typeOf(e))
	case *ast.CompositeLit:
		t := env.typeOf(e)
		if st, ok := t.Underlying().(*types.Struct); ok {
			v := zeroVal(t)
			for i, el := range e.Elts {
				fi := i
				val := el
				if kv, ok := el.(*ast.KeyValueExpr); ok {
					for j := 0; j < st.NumFields(); j++ {
						if st.Field(j).Name() == kv.Key.(*ast.Ident).Name {
							fi = j
						}
					}
					val = kv.Value
				}
				lo, _ := fieldRange(st, fi)
				fv := env.eval(val)
				copy(v.ts[lo:], fv.ts)
			}
			return v
		}
		return env.fail(e, "composite literal")
	}
	return env.fail(e, fmt.Sprintf("%T", e))
}

func isUntyped(t types.Type) bool {
	b, ok := t.(*types.Basic)
	return ok && b.Info()&types.IsUntyped != 0
}

func (env *specEnv) globalLoad(obj *types.Var) Val {
	x := env.x
	n := x.globalAddr(obj.Pkg().Path() + "." + obj.Name())
	return x.loadAt(env.h(), Val{ts: []Term{n}}, obj.Type())
}

func (env *specEnv) call(e *ast.CallExpr) Val {
	x := env.x
	// conversion
	if tv, ok := env.info.Types[e.Fun]; ok && tv.IsType() {
		from := env.typeOf(e.Args[0])
		v := env.eval(e.Args[0])
		if isUntyped(from) {
			return v
		}
		if _, ok := tv.Type.Underlying().(*types.Interface); ok {
			return x.makeIface(v, from)
		}
		return x.convert(v, from, tv.Type, env.h())
	}
	fun := ast.Unparen(e.Fun)
	// generic instantiation f[T](...)
	if ix, ok := fun.(*ast.IndexExpr); ok {
		if id, isID := ix.X.(*ast.Ident); isID && id.Name == "verif_ptr" {
			// ptr[T](n): the reference recorded by a ghost counter (lastres/lastarg), typed as *T
			return Val{ts: []Term{env.eval(e.Args[0]).ts[0]}}
		}
		if id, isID := ix.X.(*ast.Ident); isID && (id.Name == "verif_resval" || id.Name == "verif_argval") {
			// resval[T](name): the (first) result of the last call counted by `name`, typed as T - all its leaves;
			// argval[T](name, i): argument i of that call (interface invocations: the receiver is argument 0)
			tv := env.info.Types[e.Args[0]]
			if tv.Value == nil {
				return env.fail(e, "resval / argval need a constant counter name")
			}
			cn := strings.Trim(tv.Value.ExactString(), `"`)
			base, maxLeaves := "$res:"+cn, 11
			if id.Name == "verif_argval" {
				iv := env.info.Types[e.Args[1]]
				if iv.Value == nil {
					return env.fail(e, "argval needs a constant argument index")
				}
				base, maxLeaves = fmt.Sprintf("$arg:%s:%s", cn, iv.Value.ExactString()), 4
			}
			want := env.typeOf(ix.Index)
			ls := leaves(want)
			tkey := cn
			if id.Name == "verif_argval" {
				tkey = base
			}
			if env.calleeGhost != nil {
				// a callee's contract applied at a call site: its ghost records describe the callee's own execution,
				// unknown to the caller
				v := Val{}
				for k, l := range ls {
					gk := fmt.Sprintf("%s#%d", base, k)
					t, ok := env.calleeGhost[gk]
					if !ok {
						t = x.freshConst("calleeghost", l.Sort.String())
						env.calleeGhost[gk] = t
					}
					v.ts = append(v.ts, t)
				}
				return v
			}
			if got, seen := x.resTypes[tkey]; seen && !types.Identical(got, want) {
				return env.fail(e, fmt.Sprintf("%s[%s]: the calls counted by %q have %s there", id.Name[6:], want, cn, got))
			}
			if _, isIface := want.Underlying().(*types.Interface); isIface || len(ls) == 0 || len(ls) > maxLeaves || env.calleeGhost != nil {
				return env.fail(e, "resval / argval: unsupported shape or context")
			}
			var ts []Term
			for k, l := range ls {
				key := base
				if k > 0 {
					key = fmt.Sprintf("%s:%d", base, k)
				}
				x.regKey(key, "Int")
				hh := env.heap
				if env.inPrev {
					hh = env.prev
				}
				t := x.hget(hh, key)
				switch l.Sort {
				case SInt:
				case SBool:
					t = eq(t, "1")
				default:
					return env.fail(e, "resval / argval: value with an array-sorted leaf")
				}
				ts = append(ts, t)
			}
			return Val{ts: ts}
		}
		if id, isID := ix.X.(*ast.Ident); isID && id.Name == "verif_istype" {
			// istype[T](x): the dynamic type of interface value x is T (T concrete) / implements T (T interface)
			t := env.typeOf(ix.Index)
			v := env.eval(e.Args[0])
			if len(v.ts) != 2 {
				return env.fail(e, "istype of non-interface")
			}
			if _, isIface := t.Underlying().(*types.Interface); isIface {
				return Val{ts: []Term{and(not(eq(v.ts[0], "0")), app("implements", v.ts[0], x.typeID(t)))}}
			}
			return Val{ts: []Term{eq(v.ts[0], x.typeID(t))}}
		}
		fun = ix.X
	}
	if id, ok := fun.(*ast.Ident); ok {
		switch id.Name {
		case "len":
			if _, isB := env.info.Uses[id].(*types.Builtin); isB {
				t := env.typeOf(e.Args[0])
				v := env.eval(e.Args[0])
				switch u := t.Underlying().(type) {
				case *types.Slice:
					return Val{ts: []Term{v.ts[2]}}
				case *types.Basic:
					return Val{ts: []Term{app("strlen", v.ts[0])}}
				case *types.Array:
					return Val{ts: []Term{num(u.Len())}}
				case *types.Map:
					if x.regMap(u) {
						_, _, card := mapKeys(u)
						return Val{ts: []Term{ite(eq(v.ts[0], "0"), "0", app("select", x.hget(env.h(), card), v.ts[0]))}}
					}
				}
				return env.fail(e, "len")
			}
		case "cap":
			if _, isB := env.info.Uses[id].(*types.Builtin); isB {
				v := env.eval(e.Args[0])
				if len(v.ts) == 4 {
					return Val{ts: []Term{v.ts[3]}}
				}
				return env.fail(e, "cap")
			}
		case "verif_implies":
			return Val{ts: []Term{implies(env.eval(e.Args[0]).ts[0], env.eval(e.Args[1]).ts[0])}}
		case "verif_iff":
			return Val{ts: []Term{eq(env.eval(e.Args[0]).ts[0], env.eval(e.Args[1]).ts[0])}}
		case "verif_fst", "verif_snd", "verif_fst3", "verif_snd3", "verif_thd3":
			// projection of a two- or three-result call: fst(f(x)), snd(f(x)), fst3/snd3/thd3(g(x))
			if len(e.Args) != 1 {
				return env.fail(e, "projections take one multi-valued call")
			}
			tp, ok := env.typeOf(e.Args[0]).(*types.Tuple)
			want := 2
			if strings.HasSuffix(id.Name, "3") {
				want = 3
			}
			if !ok || tp.Len() != want {
				return env.fail(e, "projection of a call with the wrong number of results")
			}
			tv := env.eval(e.Args[0])
			k := 0
			switch id.Name {
			case "verif_snd", "verif_snd3":
				k = 1
			case "verif_thd3":
				k = 2
			}
			lo, hi := tupleRange(tp, k)
			return Val{ts: tv.ts[lo:hi]}
		case "verif_le64":
			// little-endian value of the first 8 bytes of a byte slice (same function the code model uses)
			s := env.eval(e.Args[0])
			if len(s.ts) != 4 {
				return env.fail(e, "le64 of non-slice")
			}
			x.sc.declFun("le64dec", []string{"Int", "Int", "Int", "Int", "Int", "Int", "Int", "Int"}, "Int")
			ek := elemKeyOf(types.Typ[types.Uint8], "")
			x.regKey(ek, "(Array Int (Array Int Int))")
			arr := app("select", x.hget(env.h(), ek), s.ts[0])
			var bs []Term
			for k := 0; k < 8; k++ {
				bs = append(bs, app("select", arr, sidx(s.ts[1], num(int64(k)))))
			}
			return Val{ts: []Term{app("le64dec", bs...)}}
		case "verif_raw":
			// the mathematical value of an integer/reference expression, without any conversion
			v := env.eval(e.Args[0])
			if len(v.ts) == 0 {
				return env.fail(e, "raw() of empty value")
			}
			if _, isIface := env.typeOf(e.Args[0]).Underlying().(*types.Interface); isIface && len(v.ts) == 2 {
				return Val{ts: []Term{v.ts[1]}} // interface: the payload, as lastarg() records it
			}
			return Val{ts: []Term{asInt(v.ts[0], leaves(env.typeOf(e.Args[0]))[0].Sort)}}
		case "verif_haskey":
			// haskey(m, k): the map has an entry for k
			mt, ok := env.typeOf(e.Args[0]).Underlying().(*types.Map)
			if !ok || !x.regMap(mt) {
				return env.fail(e, "haskey on an unsupported map type")
			}
			m := env.eval(e.Args[0])
			kv := env.eval(e.Args[1])
			has, _, _ := mapKeys(mt)
			k := x.mapKeyTerm(mt.Key(), kv)
			return Val{ts: []Term{and(not(eq(m.ts[0], "0")), app("select", app("select", x.hget(env.h(), has), m.ts[0]), k))}}
		case "verif_same":
			// identity of two values Go cannot compare (func values, slices): leaf-wise equality
			a, b := env.eval(e.Args[0]), env.eval(e.Args[1])
			if len(a.ts) != len(b.ts) {
				return env.fail(e, "same() on different shapes")
			}
			var cs []Term
			for i := range a.ts {
				cs = append(cs, eq(a.ts[i], b.ts[i]))
			}
			return Val{ts: []Term{and(cs...)}}
		case "verif_lastresn", "verif_nthres":
			tv := env.info.Types[e.Args[0]]
			iv := env.info.Types[e.Args[1]]
			if tv.Value == nil || iv.Value == nil {
				return env.fail(e, "lastresn / nthres need a constant name and index")
			}
			cn := strings.Trim(tv.Value.ExactString(), `"`)
			key := "$res:" + cn
			if id.Name == "verif_nthres" {
				// nthres(name, k): first result leaf of the k-th counted call, k = 1..3
				key = fmt.Sprintf("$res:%s@%s", cn, iv.Value.ExactString())
			} else if iv.Value.ExactString() != "0" {
				key = fmt.Sprintf("$res:%s:%s", cn, iv.Value.ExactString())
			}
			x.regKey(key, "Int")
			// ghost counters are read in the state the clause is evaluated in, even under old(): their entry
			// values are 0 / unset and of no use
			if env.calleeGhost != nil {
				// a callee's contract applied at a call site: its ghost counters describe the callee's own
				// execution, unknown to the caller
				if t, ok := env.calleeGhost[key]; ok {
					return Val{ts: []Term{t}}
				}
				t := x.freshConst("calleeghost", "Int")
				env.calleeGhost[key] = t
				return Val{ts: []Term{t}}
			}
			if env.inPrev {
				return Val{ts: []Term{x.hget(env.prev, key)}} // prev(calls(..)): value at the start of the loop iteration
			}
			return Val{ts: []Term{x.hget(env.heap, key)}}
		case "verif_calls", "verif_snap", "verif_lastarg", "verif_lastres", "verif_lastargn":
			tv := env.info.Types[e.Args[0]]
			if tv.Value == nil {
				return env.fail(e, "counter name must be a string constant")
			}
			cn := strings.Trim(tv.Value.ExactString(), `"`)
			key := "$cnt:" + cn
			if id.Name == "verif_snap" {
				// snap("name"): 1 iff the fact recorded by snap[COUNTER:name] held right before the last watched call
				key = "$snap:" + cn
			}
			if id.Name == "verif_lastres" {
				key = "$res:" + cn
			}
			if id.Name == "verif_lastarg" {
				iv := env.info.Types[e.Args[1]]
				if iv.Value == nil {
					return env.fail(e, "argument index must be a constant")
				}
				key = fmt.Sprintf("$arg:%s:%s", cn, iv.Value.ExactString())
			}
			if id.Name == "verif_lastargn" {
				// lastargn(name, i, k): leaf k of argument i (slices: 0 base, 1 offset, 2 length, 3 capacity)
				iv, kv := env.info.Types[e.Args[1]], env.info.Types[e.Args[2]]
				if iv.Value == nil || kv.Value == nil {
					return env.fail(e, "argument and leaf index must be constants")
				}
				key = fmt.Sprintf("$arg:%s:%s", cn, iv.Value.ExactString())
				if kv.Value.ExactString() != "0" {
					key += ":" + kv.Value.ExactString()
				}
			}
			x.regKey(key, "Int")
			// ghost counters are read in the state the clause is evaluated in, even under old(): their entry
			// values are 0 / unset and of no use
			if env.calleeGhost != nil {
				// a callee's contract applied at a call site: its ghost counters describe the callee's own
				// execution, unknown to the caller
				if t, ok := env.calleeGhost[key]; ok {
					return Val{ts: []Term{t}}
				}
				t := x.freshConst("calleeghost", "Int")
				env.calleeGhost[key] = t
				return Val{ts: []Term{t}}
			}
			if env.inPrev {
				return Val{ts: []Term{x.hget(env.prev, key)}} // prev(calls(..)): value at the start of the loop iteration
			}
			return Val{ts: []Term{x.hget(env.heap, key)}}
		case "verif_fresh":
			// the reference was allocated during the call (above the allocation top at entry)
			x.regKey(keyAlloc, "Int")
			return Val{ts: []Term{app(">", env.eval(e.Args[0]).ts[0], x.hget(env.old, keyAlloc))}}
		case "verif_allocated":
			// the reference (pointer, map, slice base) denotes an object that exists in the current state: it lies
			// at or below the allocation top
			x.regKey(keyAlloc, "Int")
			return Val{ts: []Term{app("<=", env.eval(e.Args[0]).ts[0], x.hget(env.h(), keyAlloc))}}
		case "verif_base":
			// the backing array of a slice (its identity), as an integer
			v := env.eval(e.Args[0])
			if len(v.ts) != 4 {
				return env.fail(e, "base() of a non-slice")
			}
			return Val{ts: []Term{v.ts[0]}}
		case "verif_prev":
			if env.prevVars == nil {
				return env.fail(e, "prev() outside a step clause")
			}
			savedP, savedV := env.inPrev, env.vars
			env.inPrev = true
			nv := map[string]Val{}
			for k, v := range env.vars {
				nv[k] = v
			}
			for k, v := range env.prevVars {
				nv[k] = v
			}
			env.vars = nv
			v := env.eval(e.Args[0])
			env.inPrev, env.vars = savedP, savedV
			return v
		case "verif_old":
			saved := env.inOld
			env.inOld = true
			v := env.eval(e.Args[0])
			env.inOld = saved
			return v
		case "verif_forall", "verif_exists":
			fl, ok := e.Args[0].(*ast.FuncLit)
			if !ok {
				return env.fail(e, "quantifier body")
			}
			var binders []string
			saved := map[string]*Val{}
			var ranges []Term
			for _, f := range fl.Type.Params.List {
				t := env.typeOf(f.Type)
				for _, n := range f.Names {
					ls := leaves(t)
					if len(ls) != 1 {
						return env.fail(e, "quantified variable of composite type")
					}
					bn := sym(fmt.Sprintf("qbv$%s!%d", n.Name, env.qdepth))
					binders = append(binders, fmt.Sprintf("(%s %s)", bn, ls[0].Sort))
					if old, ok := env.vars[n.Name]; ok {
						o := old
						saved[n.Name] = &o
					} else {
						saved[n.Name] = nil
					}
					env.vars[n.Name] = Val{ts: []Term{bn}}
					// quantified integers are mathematical: signed unbounded, unsigned >= 0
					if isInt, signed, _ := intRange(t); isInt {
						if !signed {
							ranges = append(ranges, app(">=", bn, "0"))
						}
					}
					// references are quantified over all of Int (negative references do not exist,
					// so statements about them are vacuous in any real heap)
				}
			}
			env.qdepth++
			body := env.eval(fl.Body.List[0].(*ast.ReturnStmt).Results[0]).ts[0]
			env.qdepth--
			for n, o := range saved {
				if o == nil {
					delete(env.vars, n)
				} else {
					env.vars[n] = *o
				}
			}
			if id.Name == "verif_forall" {
				full := implies(and(ranges...), body)
				if strings.Contains(body, "(exists ") || strings.Contains(body, "(forall ") {
					var names []string
					for _, b := range binders {
						names = append(names, strings.Fields(strings.Trim(b, "()"))[0])
					}
					if trg := findTrigger(body, names); trg != "" {
						return Val{ts: []Term{fmt.Sprintf("(forall (%s) (! %s :pattern (%s)))", strings.Join(binders, " "), full, trg)}}
					}
				}
				return Val{ts: []Term{fmt.Sprintf("(forall (%s) %s)", strings.Join(binders, " "), full)}}
			}
			return Val{ts: []Term{fmt.Sprintf("(exists (%s) %s)", strings.Join(binders, " "), and(and(ranges...), body))}}
		}
	}
	// arguments
	var args []Val
	var atypes []types.Type
	sig, _ := env.typeOf(e.Fun).Underlying().(*types.Signature)
	evalArgs := func() {
		for i, a := range e.Args {
			v := env.eval(a)
			t := env.typeOf(a)
			if sig != nil {
				var pt types.Type
				if sig.Variadic() && i >= sig.Params().Len()-1 {
					pt = sig.Params().At(sig.Params().Len() - 1).Type().(*types.Slice).Elem()
				} else if i < sig.Params().Len() {
					pt = sig.Params().At(i).Type()
				}
				if pt != nil {
					if isUntyped(t) {
						if id, ok := ast.Unparen(a).(*ast.Ident); ok && id.Name == "nil" {
							v = zeroVal(pt)
						}
						t = pt
					}
					if _, pi := pt.Underlying().(*types.Interface); pi {
						if _, ai := t.Underlying().(*types.Interface); !ai {
							v = x.makeIface(v, t)
						}
						t = pt
					} else {
						t = pt
					}
				}
			}
			args = append(args, v)
			atypes = append(atypes, t)
		}
	}
	rt := env.typeOf(e)
	// static function / method / spec function
	var fobj *types.Func
	var recv ast.Expr
	switch f := fun.(type) {
	case *ast.Ident:
		fobj, _ = env.info.Uses[f].(*types.Func)
	case *ast.SelectorExpr:
		if sel, ok := env.info.Selections[f]; ok {
			if sel.Kind() == types.MethodVal {
				fobj, _ = sel.Obj().(*types.Func)
				recv = f.X
			}
		} else {
			fobj, _ = env.info.Uses[f.Sel].(*types.Func)
		}
	}
	if fobj != nil {
		if recv != nil {
			rv := env.eval(recv)
			rtyp := env.typeOf(recv)
			// method promoted through embedded fields: walk to the embedded receiver
			if sel, ok := env.info.Selections[fun.(*ast.SelectorExpr)]; ok && len(sel.Index()) > 1 {
				path := sel.Index()[:len(sel.Index())-1]
				for _, fi := range path {
					if pt, isPtr := rtyp.Underlying().(*types.Pointer); isPtr {
						st := pt.Elem().Underlying().(*types.Struct)
						ft := st.Field(fi).Type()
						fa := x.fieldAddr(rv, pt.Elem(), fi)
						if _, fIsPtr := ft.Underlying().(*types.Pointer); fIsPtr || fa.fp != nil {
							rv = x.loadAt(env.h(), fa, ft)
							rtyp = ft
						} else {
							rv = fa // address of the embedded struct value
							rtyp = types.NewPointer(ft)
						}
					} else if st, isStruct := rtyp.Underlying().(*types.Struct); isStruct {
						lo, hi := fieldRange(st, fi)
						rv = Val{ts: rv.ts[lo:hi]}
						rtyp = st.Field(fi).Type()
					}
				}
			}
			// auto address-of / deref for receivers
			msig := fobj.Type().(*types.Signature)
			if mr := msig.Recv(); mr != nil {
				_, wantPtr := mr.Type().Underlying().(*types.Pointer)
				_, havePtr := rtyp.Underlying().(*types.Pointer)
				_, isIface := mr.Type().Underlying().(*types.Interface)
				if !isIface {
					if wantPtr && !havePtr {
						if p, _, ok := x.evalAddr(env, recv); ok && p.fp == nil {
							rv = p
							rtyp = types.NewPointer(rtyp)
						}
					} else if !wantPtr && havePtr {
						rv = x.loadAt(env.h(), rv, derefType(rtyp))
						rtyp = derefType(rtyp)
					}
				}
			}
			args = append(args, rv)
			atypes = append(atypes, rtyp)
		}
		evalArgs()
		key := fobj.FullName()
		if o := fobj.Origin(); o != nil {
			key = o.FullName()
		}
		if fobj.Pkg() != nil && x.eng.specFuncs[fobj.Pkg().Path()+"."+fobj.Name()] && recv == nil {
			return x.specCall(fobj.Pkg().Path()+"."+fobj.Name(), args, atypes, rt)
		}
		return x.pureCall(key, args, atypes, rt, env.h())
	}
	// call of a function-typed value (parameter)
	fv := env.eval(e.Fun)
	args = append(args, fv)
	atypes = append(atypes, env.typeOf(e.Fun))
	evalArgs()
	return x.pureCall("param:"+typeKey(env.typeOf(e.Fun)), args, atypes, rt, env.h())
}
