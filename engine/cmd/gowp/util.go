package main

import (
	"go/types"
	"math/big"

	"golang.org/x/tools/go/ssa"
)

func typesPointerOf(t *ssa.Type) types.Type { return types.NewPointer(t.Type()) }

type bigIntT = big.Int

var bigOne = big.NewInt(1)

func must(err error) {
	if err != nil {
		panic(err)
	}
}
