package main

import (
	"fmt"
	"go/ast"
	"go/build"
	"go/parser"
	"go/token"
	"go/types"
	"os"
	"path/filepath"
	"regexp"
	"sort"
	"strings"

	"golang.org/x/tools/go/packages"
	"golang.org/x/tools/go/ssa"
)

const helperDecls = `
func verif_implies(a, b bool) bool { return !a || b }
func verif_iff(a, b bool) bool { return a == b }
func verif_old[T any](x T) T { return x }
func verif_prev[T any](x T) T { return x }
func verif_forall(f any) bool
func verif_exists(f any) bool
func verif_fresh(p any) bool
func verif_allocated(p any) bool
func verif_base(s any) int
func verif_istype[T any](x any) bool { _, ok := x.(T); return ok }
func verif_fst[A, B any](a A, b B) A { return a }
func verif_snd[A, B any](a A, b B) B { return b }
func verif_fst3[A, B, C any](a A, b B, c C) A { return a }
func verif_snd3[A, B, C any](a A, b B, c C) B { return b }
func verif_thd3[A, B, C any](a A, b B, c C) C { return c }
func verif_ptr[T any](n int) *T { return nil }
func verif_resval[T any](name string) T { var z T; return z }
func verif_argval[T any](name string, i int) T { var z T; return z }
func verif_le64(b []byte) uint64
func verif_haskey(m, k any) bool
func verif_same(a, b any) bool
func verif_raw(a any) int
func verif_calls(name string) int
func verif_snap(name string) int
func verif_lastarg(name string, i int) int
func verif_lastargn(name string, i int, k int) int
func verif_lastres(name string) int
func verif_lastresn(name string, k int) int
func verif_nthres(name string, k int) int
`

type clauseInfo struct {
	decl   *ast.FuncDecl
	info   *types.Info
	pkg    *types.Package
	params []string // names of the synthetic function's parameters, in order
}

type Engine struct {
	repo          string
	fset          *token.FileSet
	prog          *ssa.Program
	pkgs          map[string]*packages.Package
	ssaPkgs       map[string]*ssa.Package
	typPkgs       map[string]*types.Package
	contracts     map[string]*Contract // callee key -> contract
	cfiles        []*ContractFile
	clauses       map[*Clause]*clauseInfo
	synDecls      map[string]*clauseInfo // synthetic func name -> decl
	specFuncs     map[string]bool
	axioms        map[string][]*Clause // pkg path -> axioms ("" = global/ext)
	lemmas        map[string][]*Clause
	pureFuncs     map[string]bool // callee keys declared pure (UF of args+epoch)
	warnings      []string
	synCount      int
	curTypeParams string
	tmpFiles      []string
}

// isRigid: the pure function does not depend on the heap (declared with //@ rigid).
func (e *Engine) isRigid(key string) bool {
	for _, cf := range e.cfiles {
		for _, r := range cf.Rigid {
			if r == key || r == shortCallee(key) {
				return true
			}
		}
	}
	return false
}

func (e *Engine) warnf(f string, a ...any) {
	e.warnings = append(e.warnings, fmt.Sprintf(f, a...))
}

type synFile struct {
	imports string
	body    strings.Builder
}

// fieldListText renders a parameter list, naming unnamed params and turning ...T into []T.
func fieldListText(fl *ast.FieldList, prefix string, names *[]string) string {
	if fl == nil {
		return ""
	}
	var parts []string
	k := 0
	for _, f := range fl.List {
		t := types.ExprString(f.Type)
		if strings.HasPrefix(t, "...") {
			t = "[]" + t[3:]
		}
		if len(f.Names) == 0 {
			n := fmt.Sprintf("%s%d", prefix, k)
			k++
			parts = append(parts, n+" "+t)
			*names = append(*names, n)
			continue
		}
		for _, n := range f.Names {
			nm := n.Name
			if nm == "_" {
				nm = fmt.Sprintf("%s%d", prefix, k)
			}
			k++
			parts = append(parts, nm+" "+t)
			*names = append(*names, nm)
		}
	}
	return strings.Join(parts, ", ")
}

func resultListText(fl *ast.FieldList, names *[]string) string {
	if fl == nil {
		return ""
	}
	n := fl.NumFields()
	var parts []string
	k := 0
	for _, f := range fl.List {
		t := types.ExprString(f.Type)
		if len(f.Names) == 0 {
			nm := "result"
			if n > 1 {
				nm = fmt.Sprintf("result%d", k)
			}
			k++
			parts = append(parts, nm+" "+t)
			*names = append(*names, nm)
			continue
		}
		for _, id := range f.Names {
			nm := id.Name
			if nm == "_" {
				nm = fmt.Sprintf("result%d", k)
			}
			k++
			parts = append(parts, nm+" "+t)
			*names = append(*names, nm)
		}
	}
	return strings.Join(parts, ", ")
}

func importsText(f *ast.File) string {
	var b strings.Builder
	b.WriteString("import (\n")
	for _, im := range f.Imports {
		if im.Name != nil {
			b.WriteString("\t" + im.Name.Name + " " + im.Path.Value + "\n")
		} else {
			b.WriteString("\t" + im.Path.Value + "\n")
		}
	}
	b.WriteString(")\n")
	return b.String()
}

// importsTextExtra: the file's imports plus the contract file's `//@ import alias "path"` lines that do not
// clash with them (by alias or by path).
func importsTextExtra(f *ast.File, extra []string) string {
	var b strings.Builder
	b.WriteString("import (\n")
	seenAlias, seenPath := map[string]bool{}, map[string]bool{}
	for _, im := range f.Imports {
		p := strings.Trim(im.Path.Value, `"`)
		seenPath[p] = true
		if im.Name != nil {
			seenAlias[im.Name.Name] = true
			b.WriteString("\t" + im.Name.Name + " " + im.Path.Value + "\n")
		} else {
			seenAlias[p[strings.LastIndex(p, "/")+1:]] = true
			b.WriteString("\t" + im.Path.Value + "\n")
		}
	}
	for _, ex := range extra {
		fs := strings.Fields(ex)
		if len(fs) != 2 {
			continue
		}
		p := strings.Trim(fs[1], `"`)
		if seenAlias[fs[0]] {
			continue
		}
		seenAlias[fs[0]], seenPath[p] = true, true
		fmt.Fprintf(&b, "\t%s %q\n", fs[0], p)
	}
	b.WriteString(")\n")
	return b.String()
}

func recvTypeText(fd *ast.FuncDecl) string {
	if fd.Recv == nil || len(fd.Recv.List) == 0 {
		return ""
	}
	t := types.ExprString(fd.Recv.List[0].Type)
	// drop type params of generic receivers
	if i := strings.Index(t, "["); i >= 0 {
		t = t[:i]
	}
	return t
}

// typeParamsText: the type parameter list ("[D Duty]") a synthetic clause function needs when the function under
// contract is a method of a generic type (or itself generic); "" otherwise.
func typeParamsText(fd *ast.FuncDecl, files map[string]*ast.File) string {
	if fd.Recv == nil || len(fd.Recv.List) == 0 {
		if fd.Type.TypeParams != nil {
			var names []string
			return "[" + fieldListText(fd.Type.TypeParams, "_tp", &names) + "]"
		}
		return ""
	}
	t := fd.Recv.List[0].Type
	if st, ok := t.(*ast.StarExpr); ok {
		t = st.X
	}
	var base ast.Expr
	var args []ast.Expr
	switch ix := t.(type) {
	case *ast.IndexExpr:
		base, args = ix.X, []ast.Expr{ix.Index}
	case *ast.IndexListExpr:
		base, args = ix.X, ix.Indices
	default:
		return ""
	}
	bid, ok := base.(*ast.Ident)
	if !ok {
		return ""
	}
	var constraints []ast.Expr
	for _, name := range sortedKeys(files) {
		for _, d := range files[name].Decls {
			gd, ok := d.(*ast.GenDecl)
			if !ok {
				continue
			}
			for _, sp := range gd.Specs {
				ts, ok := sp.(*ast.TypeSpec)
				if !ok || ts.Name.Name != bid.Name || ts.TypeParams == nil {
					continue
				}
				for _, f := range ts.TypeParams.List {
					for range f.Names {
						constraints = append(constraints, f.Type)
					}
				}
			}
		}
	}
	if len(constraints) != len(args) {
		return ""
	}
	var ps []string
	for i, a := range args {
		ps = append(ps, types.ExprString(a)+" "+types.ExprString(constraints[i]))
	}
	return "[" + strings.Join(ps, ", ") + "]"
}

func (e *Engine) newSynName(kind string) string {
	e.synCount++
	return fmt.Sprintf("verif_%s_%d", kind, e.synCount)
}

// genClause emits the synthetic function for a clause.
func (e *Engine) genClause(sf *synFile, c *Clause, paramText string) error {
	g, err := rewriteSpec(c.Text)
	if err != nil {
		return fmt.Errorf("%s:%d: %v", c.File, c.Line, err)
	}
	c.GoText = g
	c.ParamText, c.TypeParams = paramText, e.curTypeParams
	c.SynName = e.newSynName(c.Kind)
	fmt.Fprintf(&sf.body, "//line %s:%d\nfunc %s%s(%s) bool { return %s }\n", c.File, c.Line, c.SynName, e.curTypeParams, paramText, g)
	return nil
}

// prepareRepoPackage reads <dir>/verif_contracts.go and builds overlay files.
func (e *Engine) prepareRepoPackage(rel string, overlay map[string][]byte) error {
	dir := filepath.Join(e.repo, rel)
	cpath := filepath.Join(dir, "verif_contracts.go")
	if _, err := os.Stat(cpath); err != nil {
		return nil // no contracts in this package
	}
	cf, err := parseContractFile(cpath)
	if err != nil {
		return err
	}
	e.cfiles = append(e.cfiles, cf)
	ctx := build.Default
	ctx.BuildTags = []string{"verif"}
	bp, err := ctx.ImportDir(dir, 0)
	if err != nil {
		if _, ok := err.(*build.MultiplePackageError); !ok && bp == nil {
			return err
		}
	}
	fset := token.NewFileSet()
	files := map[string]*ast.File{}
	for _, gf := range bp.GoFiles {
		if strings.HasPrefix(gf, "zz_verif_") || gf == "verif_contracts.go" {
			continue
		}
		af, err := parser.ParseFile(fset, filepath.Join(dir, gf), nil, parser.SkipObjectResolution)
		if err != nil {
			return err
		}
		files[gf] = af
	}
	pkgPath := "github.com/bloxapp/ssv/" + filepath.ToSlash(rel)
	syn := map[string]*synFile{}
	getSyn := func(src string) *synFile {
		if s, ok := syn[src]; ok {
			return s
		}
		s := &synFile{imports: importsTextExtra(files[src], cf.Imports)}
		syn[src] = s
		return s
	}
	firstSrc := ""
	for _, c := range cf.Contracts {
		c.Pkg = pkgPath
		var fd *ast.FuncDecl
		declName, closureIdx := c.FuncName, 0
		if i := strings.Index(c.FuncName, "$"); i >= 0 {
			declName = c.FuncName[:i]
			fmt.Sscanf(c.FuncName[i+1:], "%d", &closureIdx)
		}
		for _, name := range sortedKeys(files) {
			for _, d := range files[name].Decls {
				if f, ok := d.(*ast.FuncDecl); ok && f.Name.Name == declName && recvTypeText(f) == c.RecvType {
					fd = f
					c.SrcFile = name
				}
			}
		}
		if fd == nil {
			return fmt.Errorf("%s:%d: function %s not found in %s", c.File, c.Line, c.Key, rel)
		}
		if closureIdx > 0 {
			// contract on the closureIdx-th function literal of the declaration (source order, outermost literals):
			// its own parameters/results, and the captured variables declared with //@ freevars
			var lits []*ast.FuncLit
			ast.Inspect(fd.Body, func(n ast.Node) bool {
				if fl, ok := n.(*ast.FuncLit); ok {
					lits = append(lits, fl)
					return false
				}
				return true
			})
			if closureIdx > len(lits) {
				return fmt.Errorf("%s:%d: %s has only %d function literals", c.File, c.Line, declName, len(lits))
			}
			fl := lits[closureIdx-1]
			fd = &ast.FuncDecl{Name: fd.Name, Type: fl.Type, Body: fl.Body}
			c.IsClosure = true
		}
		if firstSrc == "" {
			firstSrc = c.SrcFile
		}
		e.curTypeParams = typeParamsText(fd, files)
		switch {
		case c.RecvType == "":
			c.CalleeKey = pkgPath + "." + c.FuncName
		case strings.HasPrefix(c.RecvType, "*"):
			c.CalleeKey = "(*" + pkgPath + "." + c.RecvType[1:] + ")." + c.FuncName
		default:
			c.CalleeKey = "(" + pkgPath + "." + c.RecvType + ")." + c.FuncName
		}
		var names []string
		var parts []string
		if fd.Recv != nil {
			if t := fieldListText(fd.Recv, "_recv", &names); t != "" {
				parts = append(parts, t)
			}
		}
		if t := fieldListText(fd.Type.Params, "_p", &names); t != "" {
			parts = append(parts, t)
		}
		c.NOwnParams = len(names)
		if c.IsClosure && c.FreeVars != "" {
			parts = append(parts, c.FreeVars)
			for _, p := range splitTop(c.FreeVars, ',') {
				fn := strings.Fields(strings.TrimSpace(p))[0]
				names = append(names, fn)
				c.FreeVarNames = append(c.FreeVarNames, fn)
			}
		}
		pre := strings.Join(parts, ", ")
		preNames := append([]string(nil), names...)
		if t := resultListText(fd.Type.Results, &names); t != "" {
			parts = append(parts, t)
		}
		post := strings.Join(parts, ", ")
		c.SynParams = names
		sf := getSyn(c.SrcFile)
		for _, cl := range append(append(append(append([]*Clause{}, c.Requires...), c.Givens...), c.Assumes...), c.Snaps...) {
			if err := e.genClause(sf, cl, pre); err != nil {
				return err
			}
			e.clauses[cl] = &clauseInfo{params: preNames}
		}
		for _, cl := range c.Ensures {
			if err := e.genClause(sf, cl, post); err != nil {
				return err
			}
			e.clauses[cl] = &clauseInfo{params: names}
		}
		for _, cl := range c.Invariants {
			pt := pre
			nm := append([]string(nil), preNames...)
			if iv := c.InvVars[cl.Loop]; iv != "" {
				if pt != "" {
					pt += ", "
				}
				pt += iv
				for _, p := range splitTop(iv, ',') {
					nm = append(nm, strings.Fields(strings.TrimSpace(p))[0])
				}
			}
			if err := e.genClause(sf, cl, pt); err != nil {
				return err
			}
			e.clauses[cl] = &clauseInfo{params: nm}
		}
		for i, m := range c.Modifies {
			inner := m
			if m == "everything" {
				continue
			}
			if strings.HasPrefix(m, "all(") {
				inner = m[4 : len(m)-1]
			}
			name := e.newSynName("mod")
			fmt.Fprintf(&sf.body, "//line %s:%d\nfunc %s%s(%s) { _ = %s }\n", c.File, c.Line, name, e.curTypeParams, pre, inner)
			e.synDecls[fmt.Sprintf("%s#mod%d", c.CalleeKey, i)] = &clauseInfo{params: preNames, decl: &ast.FuncDecl{Name: ast.NewIdent(name)}}
		}
		for i, m := range c.Shared {
			inner := m
			if m == "everything" {
				continue
			}
			if strings.HasPrefix(m, "all(") {
				inner = m[4 : len(m)-1]
			}
			name := e.newSynName("mod")
			fmt.Fprintf(&sf.body, "//line %s:%d\nfunc %s%s(%s) { _ = %s }\n", c.File, c.Line, name, e.curTypeParams, pre, inner)
			e.synDecls[fmt.Sprintf("%s#shared%d", c.CalleeKey, i)] = &clauseInfo{params: preNames, decl: &ast.FuncDecl{Name: ast.NewIdent(name)}}
		}
		if prev, dup := e.contracts[c.CalleeKey]; dup {
			return fmt.Errorf("%s:%d: duplicate contract for %s (also %s:%d)", c.File, c.Line, c.CalleeKey, prev.File, prev.Line)
		}
		e.contracts[c.CalleeKey] = c
		e.curTypeParams = ""
	}
	e.curTypeParams = ""
	if firstSrc == "" {
		for _, n := range sortedKeys(files) {
			firstSrc = n
			break
		}
	}
	for _, sd := range cf.Specs {
		src := sd.SrcFile
		if src == "" {
			src = firstSrc
		}
		sf := getSyn(src)
		fmt.Fprintf(&sf.body, "%s\n", sd.Text)
	}
	for _, list := range [][]*Clause{cf.Axioms, cf.Lemmas} {
		for _, cl := range list {
			sf := getSyn(firstSrc)
			if err := e.genClause(sf, cl, ""); err != nil {
				return err
			}
			e.clauses[cl] = &clauseInfo{}
		}
	}
	e.axioms[pkgPath] = append(e.axioms[pkgPath], cf.Axioms...)
	e.lemmas[pkgPath] = append(e.lemmas[pkgPath], cf.Lemmas...)
	first := true
	for _, src := range sortedKeys(syn) {
		s := syn[src]
		var b strings.Builder
		b.WriteString("//go:build verif\n\npackage " + bp.Name + "\n\n" + s.imports + "\n")
		if first {
			b.WriteString(helperDecls)
			first = false
		}
		b.WriteString(s.body.String())
		overlay[filepath.Join(dir, "zz_verif_"+strings.TrimSuffix(src, ".go")+"_gen.go")] = []byte(b.String())
	}
	return nil
}

var externFuncRe = regexp.MustCompile(`^func\s+(\w+)\.(\w+)\s*\(`)

// prepareExtern builds the synthetic external package text from /verif/contracts/*.go
func (e *Engine) prepareExtern(paths []string) (string, map[string]string, error) {
	var body strings.Builder
	imports := map[string]string{} // alias -> path
	for _, p := range paths {
		cf, err := parseContractFile(p)
		if err != nil {
			return "", nil, err
		}
		e.cfiles = append(e.cfiles, cf)
		for _, im := range cf.Imports {
			f := strings.Fields(im)
			if len(f) != 2 {
				return "", nil, fmt.Errorf("%s: bad import %q (want: alias \"path\")", p, im)
			}
			path := strings.Trim(f[1], `"`)
			if old, ok := imports[f[0]]; ok && old != path {
				return "", nil, fmt.Errorf("%s: import alias %s used for two paths", p, f[0])
			}
			imports[f[0]] = path
		}
		for _, c := range cf.Contracts {
			if !c.Extern {
				return "", nil, fmt.Errorf("%s:%d: only extern contracts allowed in %s", c.File, c.Line, p)
			}
			hdr := c.ExternHdr
			pkgAlias := ""
			if m := externFuncRe.FindStringSubmatch(hdr); m != nil {
				pkgAlias = m[1]
				hdr = "func " + m[2] + "(" + hdr[len(m[0]):]
			}
			af, err := parser.ParseFile(token.NewFileSet(), "", "package p\n"+hdr, parser.SkipObjectResolution)
			if err != nil {
				return "", nil, fmt.Errorf("%s:%d: bad extern header: %v", c.File, c.Line, err)
			}
			fd := af.Decls[0].(*ast.FuncDecl)
			c.FuncName = fd.Name.Name
			qual := func(t string) (string, error) { // alias.T -> path.T
				i := strings.Index(t, ".")
				if i < 0 {
					return "", fmt.Errorf("%s:%d: receiver type %s must be package-qualified", c.File, c.Line, t)
				}
				pth, ok := imports[t[:i]]
				if !ok {
					return "", fmt.Errorf("%s:%d: unknown import alias %s", c.File, c.Line, t[:i])
				}
				return pth + t[i:], nil
			}
			if fd.Recv != nil {
				rt := recvTypeText(fd)
				if strings.HasPrefix(rt, "*") {
					q, err := qual(rt[1:])
					if err != nil {
						return "", nil, err
					}
					c.CalleeKey = "(*" + q + ")." + c.FuncName
				} else {
					q, err := qual(rt)
					if err != nil {
						return "", nil, err
					}
					c.CalleeKey = "(" + q + ")." + c.FuncName
				}
			} else {
				pth, ok := imports[pkgAlias]
				if !ok {
					return "", nil, fmt.Errorf("%s:%d: extern func needs alias.Name (alias %q unknown)", c.File, c.Line, pkgAlias)
				}
				c.CalleeKey = pth + "." + c.FuncName
			}
			var names, parts []string
			if fd.Recv != nil {
				parts = append(parts, fieldListText(fd.Recv, "_recv", &names))
			}
			if t := fieldListText(fd.Type.Params, "_p", &names); t != "" {
				parts = append(parts, t)
			}
			pre := strings.Join(parts, ", ")
			preNames := append([]string(nil), names...)
			if t := resultListText(fd.Type.Results, &names); t != "" {
				parts = append(parts, t)
			}
			post := strings.Join(parts, ", ")
			c.SynParams = names
			sf := &synFile{}
			for _, cl := range append(append([]*Clause{}, c.Requires...), c.Givens...) {
				if err := e.genClause(sf, cl, pre); err != nil {
					return "", nil, err
				}
				e.clauses[cl] = &clauseInfo{params: preNames}
			}
			for _, cl := range c.Ensures {
				if err := e.genClause(sf, cl, post); err != nil {
					return "", nil, err
				}
				e.clauses[cl] = &clauseInfo{params: names}
			}
			for i, m := range c.Modifies {
				inner := m
				if m == "everything" {
					continue
				}
				if strings.HasPrefix(m, "all(") {
					inner = m[4 : len(m)-1]
				}
				name := e.newSynName("mod")
				fmt.Fprintf(&sf.body, "//line %s:%d\nfunc %s%s(%s) { _ = %s }\n", c.File, c.Line, name, e.curTypeParams, pre, inner)
				e.synDecls[fmt.Sprintf("%s#mod%d", c.CalleeKey, i)] = &clauseInfo{params: preNames, decl: &ast.FuncDecl{Name: ast.NewIdent(name)}}
			}
			body.WriteString(sf.body.String())
			if prev, dup := e.contracts[c.CalleeKey]; dup {
				return "", nil, fmt.Errorf("%s:%d: duplicate contract for %s (also %s:%d)", c.File, c.Line, c.CalleeKey, prev.File, prev.Line)
			}
			e.contracts[c.CalleeKey] = c
		}
		for _, sd := range cf.Specs {
			body.WriteString(sd.Text + "\n")
		}
		for _, list := range [][]*Clause{cf.Axioms, cf.Lemmas} {
			for _, cl := range list {
				sf := &synFile{}
				if err := e.genClause(sf, cl, ""); err != nil {
					return "", nil, err
				}
				e.clauses[cl] = &clauseInfo{}
				body.WriteString(sf.body.String())
			}
		}
		e.axioms[""] = append(e.axioms[""], cf.Axioms...)
		e.lemmas[""] = append(e.lemmas[""], cf.Lemmas...)
	}
	var b strings.Builder
	b.WriteString("package verifext\n\nimport (\n")
	for _, a := range sortedKeys(imports) {
		fmt.Fprintf(&b, "\t%s %q\n", a, imports[a])
	}
	b.WriteString(")\n" + helperDecls + body.String())
	return b.String(), imports, nil
}

type importerFunc func(path string) (*types.Package, error)

func (f importerFunc) Import(path string) (*types.Package, error) { return f(path) }

// load loads the target packages (relative dirs) with the synthetic overlay and builds SSA.
func (e *Engine) load(rels []string, externFiles []string, extraPkgs []string) error {
	overlay := map[string][]byte{}
	for _, r := range rels {
		if err := e.prepareRepoPackage(r, overlay); err != nil {
			return err
		}
	}
	extText, extImports, err := e.prepareExtern(externFiles)
	if err != nil {
		return err
	}
	if os.Getenv("GOWP_DUMP_SYN") != "" {
		for p, b := range overlay {
			fmt.Fprintf(os.Stderr, "=== %s\n%s\n", p, b)
		}
		fmt.Fprintf(os.Stderr, "=== verifext\n%s\n", extText)
	}
	cfg := &packages.Config{
		Mode:       packages.NeedName | packages.NeedFiles | packages.NeedSyntax | packages.NeedTypes | packages.NeedTypesInfo | packages.NeedImports | packages.NeedTypesSizes,
		Dir:        e.repo,
		BuildFlags: []string{"-tags=verif"},
		Overlay:    overlay,
		Env:        append(os.Environ(), "GOFLAGS=-mod=mod", "GOPROXY=off", "GOSUMDB=off", "GOTOOLCHAIN=local"),
	}
	var pats []string
	for _, r := range rels {
		pats = append(pats, "./"+r)
	}
	pats = append(pats, extraPkgs...)
	pkgs, err := packages.Load(cfg, pats...)
	if err != nil {
		return err
	}
	e.fset = pkgs[0].Fset
	for _, p := range pkgs {
		for _, er := range p.Errors {
			msg := er.Error()
			if strings.Contains(msg, "and not used") && strings.Contains(msg, "imported") {
				continue
			}
			if strings.Contains(er.Pos, p.PkgPath) || strings.Contains(er.Pos, e.repo) || er.Pos == "" || strings.Contains(msg, "verif_contracts.go") {
				// an error inside the target package (or its contracts) is fatal
				if strings.Contains(msg, "imported and not used") {
					continue
				}
				return fmt.Errorf("package %s: %s", p.PkgPath, msg)
			}
			e.warnf("package %s: dependency error ignored: %s", p.PkgPath, msg)
		}
		if p.Types == nil || p.TypesInfo == nil {
			return fmt.Errorf("package %s: no type information", p.PkgPath)
		}
		e.pkgs[p.PkgPath] = p
	}
	// all reachable type packages
	var walk func(tp *types.Package)
	walk = func(tp *types.Package) {
		if _, ok := e.typPkgs[tp.Path()]; ok {
			return
		}
		e.typPkgs[tp.Path()] = tp
		for _, q := range tp.Imports() {
			walk(q)
		}
	}
	for _, p := range pkgs {
		walk(p.Types)
	}
	e.prog = ssa.NewProgram(e.fset, ssa.GlobalDebug|ssa.InstantiateGenerics)
	paths := sortedKeys(e.typPkgs)
	for _, path := range paths {
		if _, isTarget := e.pkgs[path]; !isTarget {
			e.prog.CreatePackage(e.typPkgs[path], nil, nil, true)
		}
	}
	for _, p := range pkgs {
		sp := e.prog.CreatePackage(p.Types, p.Syntax, p.TypesInfo, false)
		e.ssaPkgs[p.PkgPath] = sp
	}
	for _, p := range pkgs {
		func() {
			defer func() {
				if r := recover(); r != nil {
					err = fmt.Errorf("ssa build of %s panicked: %v", p.PkgPath, r)
				}
			}()
			e.ssaPkgs[p.PkgPath].Build()
		}()
		if err != nil {
			return err
		}
	}
	// index synthetic declarations
	for _, p := range pkgs {
		for _, f := range p.Syntax {
			name := filepath.Base(e.fset.Position(f.Package).Filename)
			if !strings.HasPrefix(name, "zz_verif_") {
				continue
			}
			for _, d := range f.Decls {
				if fd, ok := d.(*ast.FuncDecl); ok && strings.HasPrefix(fd.Name.Name, "verif_") {
					e.synDecls[fd.Name.Name] = &clauseInfo{decl: fd, info: p.TypesInfo, pkg: p.Types}
				}
				if fd, ok := d.(*ast.FuncDecl); ok && fd.Body == nil {
					e.specFuncs[p.PkgPath+"."+fd.Name.Name] = true
				}
			}
		}
	}
	// external contracts: manual type check
	if strings.TrimSpace(extText) != "" {
		af, err := parser.ParseFile(e.fset, "/verif/contracts/verifext_gen.go", extText, parser.SkipObjectResolution)
		if err != nil {
			return fmt.Errorf("extern contracts: %v", err)
		}
		info := &types.Info{Types: map[ast.Expr]types.TypeAndValue{}, Defs: map[*ast.Ident]types.Object{}, Uses: map[*ast.Ident]types.Object{}, Selections: map[*ast.SelectorExpr]*types.Selection{}, Instances: map[*ast.Ident]types.Instance{}}
		var terrs []string
		tc := &types.Config{
			Importer: importerFunc(func(path string) (*types.Package, error) {
				if tp, ok := e.typPkgs[path]; ok {
					return tp, nil
				}
				return nil, fmt.Errorf("package %s is not among the loaded dependencies", path)
			}),
			Error: func(err error) {
				if strings.Contains(err.Error(), "and not used") && strings.Contains(err.Error(), "imported") {
					return
				}
				terrs = append(terrs, err.Error())
			},
		}
		_ = extImports
		tp, _ := tc.Check("verifext", e.fset, []*ast.File{af}, info)
		if len(terrs) > 0 {
			return fmt.Errorf("extern contracts do not type-check:\n  %s", strings.Join(terrs, "\n  "))
		}
		for _, d := range af.Decls {
			if fd, ok := d.(*ast.FuncDecl); ok && strings.HasPrefix(fd.Name.Name, "verif_") {
				e.synDecls[fd.Name.Name] = &clauseInfo{decl: fd, info: info, pkg: tp}
			}
			if fd, ok := d.(*ast.FuncDecl); ok && fd.Body == nil {
				e.specFuncs["verifext."+fd.Name.Name] = true
			}
		}
	}
	// attach declarations to clauses
	for cl, ci := range e.clauses {
		d, ok := e.synDecls[cl.SynName]
		if !ok {
			return fmt.Errorf("%s:%d: synthetic function %s for clause was not type-checked (package not loaded?)", cl.File, cl.Line, cl.SynName)
		}
		ci.decl, ci.info, ci.pkg = d.decl, d.info, d.pkg
	}
	for k, ci := range e.synDecls {
		if strings.Contains(k, "#mod") || strings.Contains(k, "#shared") {
			d, ok := e.synDecls[ci.decl.Name.Name]
			if !ok {
				return fmt.Errorf("modifies clause %s not type-checked", k)
			}
			ci.decl, ci.info, ci.pkg = d.decl, d.info, d.pkg
		}
	}
	for _, c := range e.contracts {
		if c.Pure {
			e.pureFuncs[c.CalleeKey] = true
		}
	}
	nonRetaining = func(name string) bool {
		return e.pureFuncs[name] || (name != "" && (e.isRigid(name) || currentPure[name] || currentPure[shortCallee(name)]))
	}
	return nil
}

func newEngine(repo string) *Engine {
	return &Engine{repo: repo, pkgs: map[string]*packages.Package{}, ssaPkgs: map[string]*ssa.Package{}, typPkgs: map[string]*types.Package{},
		contracts: map[string]*Contract{}, clauses: map[*Clause]*clauseInfo{}, synDecls: map[string]*clauseInfo{}, specFuncs: map[string]bool{},
		axioms: map[string][]*Clause{}, lemmas: map[string][]*Clause{}, pureFuncs: map[string]bool{}}
}

// findFunction resolves a contract to its ssa.Function.
func (e *Engine) findFunction(c *Contract) *ssa.Function {
	if c.SweepFn != nil {
		return c.SweepFn
	}
	sp := e.ssaPkgs[c.Pkg]
	if sp == nil {
		return nil
	}
	if i := strings.Index(c.FuncName, "$"); i >= 0 {
		pc := *c
		pc.FuncName = c.FuncName[:i]
		parent := e.findFunction(&pc)
		idx := 0
		fmt.Sscanf(c.FuncName[i+1:], "%d", &idx)
		if parent == nil || idx < 1 || idx > len(parent.AnonFuncs) {
			return nil
		}
		return parent.AnonFuncs[idx-1]
	}
	if c.RecvType == "" {
		return sp.Func(c.FuncName)
	}
	tn := strings.TrimPrefix(c.RecvType, "*")
	obj := sp.Pkg.Scope().Lookup(tn)
	if obj == nil {
		return nil
	}
	var t types.Type = obj.Type()
	if strings.HasPrefix(c.RecvType, "*") {
		t = types.NewPointer(t)
	}
	ms := e.prog.MethodSets.MethodSet(t)
	for i := 0; i < ms.Len(); i++ {
		if ms.At(i).Obj().Name() == c.FuncName {
			if f := e.prog.MethodValue(ms.At(i)); f != nil {
				return f
			}
			// methods of generic types: the generic body (type parameters stay abstract)
			if fo, ok := ms.At(i).Obj().(*types.Func); ok {
				return e.prog.FuncValue(fo)
			}
			return nil
		}
	}
	return nil
}

func sortedContracts(m map[string]*Contract) []*Contract {
	var cs []*Contract
	for _, c := range m {
		cs = append(cs, c)
	}
	sort.Slice(cs, func(i, j int) bool { return cs[i].CalleeKey < cs[j].CalleeKey })
	return cs
}
