package main

import (
	"bytes"
	"context"
	"fmt"
	"os"
	"os/exec"
	"path/filepath"
	"strings"
	"sync"
	"time"
)

type solverSpec struct {
	name string
	argv func(file string, timeoutS int) []string
}

var solvers = []solverSpec{
	{"z3-new", func(f string, t int) []string { return []string{"z3-new", fmt.Sprintf("-T:%d", t), f} }},
	{"z3", func(f string, t int) []string { return []string{"z3", fmt.Sprintf("-T:%d", t), f} }},
	{"cvc5", func(f string, t int) []string { return []string{"cvc5", fmt.Sprintf("--tlimit=%d", t*1000), f} }},
}

type solveResult struct {
	status string
	solver string
	out    string
	secs   float64
}

func runSolver(ctx context.Context, s solverSpec, file string, timeoutS int) solveResult {
	argv := s.argv(file, timeoutS)
	cctx, cancel := context.WithTimeout(ctx, time.Duration(timeoutS+2)*time.Second)
	defer cancel()
	cmd := exec.CommandContext(cctx, argv[0], argv[1:]...)
	var out bytes.Buffer
	cmd.Stdout = &out
	cmd.Stderr = &out
	t0 := time.Now()
	_ = cmd.Run()
	secs := time.Since(t0).Seconds()
	o := out.String()
	first := strings.TrimSpace(strings.SplitN(o, "\n", 2)[0])
	st := "unknown"
	if strings.HasPrefix(first, "(error") && !strings.Contains(first, "model is not available") {
		// malformed script: an engine bug, never to be mistaken for an undischarged obligation
		return solveResult{status: "error", solver: s.name, out: o, secs: secs}
	}
	switch first {
	case "unsat":
		st = "unsat"
	case "sat":
		st = "sat"
	}
	return solveResult{status: st, solver: s.name, out: o, secs: secs}
}

// solve decides one obligation: z3-new first, then the other solvers in parallel.
func solve(dir string, ob *Obligation, idx int, timeoutS int, second bool) {
	file := filepath.Join(dir, fmt.Sprintf("ob%04d.smt2", idx))
	text := "; obligation: " + ob.Name + " :: " + strings.ReplaceAll(ob.Text, "\n", " ") + "\n" + ob.Script.render(ob.Goal, false, ob.NAsserts)
	if err := os.WriteFile(file, []byte(text), 0o644); err != nil {
		ob.Status, ob.Output = "unknown", err.Error()
		return
	}
	ctx := context.Background()
	if ob.Cover {
		// vacuity probe: only "unsat" (contradictory assumptions) matters; a model search with quantifiers
		// may not terminate, so it gets a short budget and a single solver
		r := runSolver(ctx, solvers[0], file, 3)
		ob.Status, ob.Solver, ob.Time, ob.Output = r.status, r.solver, r.secs, r.out
		return
	}
	// first: z3 with E-matching only (no model-based quantifier instantiation). It either finds the proof quickly
	// or saturates and gives up at once; "unsat" from it is as good as from any other configuration.
	r := runSolver(ctx, solverSpec{"z3-new/ematch", func(f string, t int) []string {
		return []string{"z3-new", fmt.Sprintf("-T:%d", t), "smt.auto_config=false", "smt.mbqi=false", f}
	}}, file, timeoutS)
	total := r.secs
	if r.status == "error" {
		ob.Status, ob.Solver, ob.Time, ob.Output = "error", r.solver, r.secs, r.out
		return
	}
	if r.status != "unsat" {
		r0 := r
		r = runSolver(ctx, solvers[0], file, timeoutS)
		total += r.secs
		if r.status == "unknown" && r0.status == "sat" {
			r = r0
		}
	}
	if r.status == "unknown" {
		cctx, cancel := context.WithCancel(ctx)
		ch := make(chan solveResult, 2)
		for _, s := range solvers[1:] {
			go func(s solverSpec) { ch <- runSolver(cctx, s, file, timeoutS) }(s)
		}
		t0 := time.Now()
		for i := 0; i < 2; i++ {
			rr := <-ch
			if rr.status != "unknown" {
				r = rr
				break
			}
			r.out += "\n--- " + rr.solver + ": " + strings.TrimSpace(rr.out)
		}
		cancel()
		total += time.Since(t0).Seconds()
	}
	ob.Status, ob.Solver, ob.Time, ob.Output = r.status, r.solver, total, r.out
	if r.status == "sat" && !ob.Cover {
		// fetch a model
		mfile := filepath.Join(dir, fmt.Sprintf("ob%04d.model.smt2", idx))
		_ = os.WriteFile(mfile, []byte(ob.Script.render(ob.Goal, true, ob.NAsserts)), 0o644)
		for _, s := range solvers {
			if s.name == r.solver {
				mr := runSolver(ctx, s, mfile, timeoutS)
				ob.Model = mr.out
			}
		}
	}
	if second && r.status == "unsat" {
		// thorough tier: a second solver must agree (or at least not disagree)
		for _, s := range solvers {
			if s.name == r.solver {
				continue
			}
			rr := runSolver(ctx, s, file, timeoutS)
			if rr.status == "sat" {
				ob.Status = "unknown"
				ob.Output += "\nSOLVER DISAGREEMENT: " + s.name + " says sat"
			}
			if rr.status == "unsat" {
				ob.Solver += "+" + s.name
			}
			break
		}
	}
}

func solveAll(dir string, obs []*Obligation, timeoutS int, workers int, second bool) {
	var wg sync.WaitGroup
	ch := make(chan int)
	for w := 0; w < workers; w++ {
		wg.Add(1)
		go func() {
			defer wg.Done()
			for i := range ch {
				solve(dir, obs[i], i, timeoutS, second)
			}
		}()
	}
	for i := range obs {
		ch <- i
	}
	close(ch)
	wg.Wait()
}
