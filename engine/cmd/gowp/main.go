package main

import (
	"encoding/json"
	"flag"
	"fmt"
	"os"
	"path/filepath"
	"regexp"
	"runtime/debug"
	"sort"
	"strings"
	"time"

	"golang.org/x/tools/go/ssa"
)

type PropConfig struct {
	ID          string   `json:"id"`
	Packages    []string `json:"packages"`
	Extern      []string `json:"extern"`
	Extra       []string `json:"extra_packages"`
	Lemmas      []string `json:"lemmas"`
	NotDecided  []string `json:"not_decided"`
	Assumptions []string `json:"assumptions"`
	Bounded     []string `json:"bounded"`
	MinObl      int      `json:"min_obligations"`
}

type Finding struct {
	Status   string // open | fixed
	Property string
	Pattern  *regexp.Regexp
	Raw      string
	Desc     string
}

func loadFindings(path string) []Finding {
	data, err := os.ReadFile(path)
	if err != nil {
		return nil
	}
	var fs []Finding
	for _, ln := range strings.Split(string(data), "\n") {
		ln = strings.TrimSpace(ln)
		if ln == "" || strings.HasPrefix(ln, "#") {
			continue
		}
		f := Finding{Raw: ln}
		if strings.HasPrefix(ln, "fixed:") {
			f.Status = "fixed"
			ln = strings.TrimSpace(strings.TrimPrefix(ln, "fixed:"))
		} else if strings.HasPrefix(ln, "open:") {
			f.Status = "open"
			ln = strings.TrimSpace(strings.TrimPrefix(ln, "open:"))
		} else {
			continue
		}
		parts := strings.SplitN(ln, "::", 2)
		if len(parts) == 2 {
			f.Desc = strings.TrimSpace(parts[1])
		}
		for _, kv := range strings.Fields(parts[0]) {
			if strings.HasPrefix(kv, "property=") {
				f.Property = strings.TrimPrefix(kv, "property=")
			}
			if strings.HasPrefix(kv, "obligation=") {
				f.Pattern = regexp.MustCompile("^" + strings.TrimPrefix(kv, "obligation=") + "$")
			}
		}
		fs = append(fs, f)
	}
	return fs
}

var noClosure bool

// closureFits: some property the contract is tagged for loads a subset of this property's packages and assumed-contract files
func closureFits(verif string, pc *PropConfig, uc *Contract) bool {
	have := map[string]bool{}
	for _, p := range pc.Packages {
		have["p:"+p] = true
	}
	for _, e := range pc.Extern {
		have["e:"+e] = true
	}
	for _, id := range uc.Props {
		var o PropConfig
		data, err := os.ReadFile(filepath.Join(verif, "props", id+".json"))
		if err != nil || json.Unmarshal(data, &o) != nil {
			continue
		}
		ok := true
		for _, p := range o.Packages {
			ok = ok && have["p:"+p]
		}
		for _, e := range o.Extern {
			ok = ok && have["e:"+e]
		}
		if ok {
			return true
		}
	}
	return false
}

func main() {
	if len(os.Args) < 2 {
		fmt.Fprintln(os.Stderr, "usage: gowp check|dump ...")
		os.Exit(2)
	}
	switch os.Args[1] {
	case "check":
		os.Exit(cmdCheck(os.Args[2:]))
	case "dump":
		os.Exit(cmdDump(os.Args[2:]))
	case "sweep":
		os.Exit(cmdSweep(os.Args[2:]))
	default:
		fmt.Fprintln(os.Stderr, "unknown command")
		os.Exit(2)
	}
}

func cmdDump(args []string) int {
	fs := flag.NewFlagSet("dump", flag.ExitOnError)
	repo := fs.String("repo", envOr("VERIF_REPO", "/repo"), "")
	fs.Parse(args)
	rest := fs.Args()
	eng := newEngine(*repo)
	if err := eng.load([]string{rest[0]}, nil, nil); err != nil {
		fmt.Fprintln(os.Stderr, err)
		return 2
	}
	for _, sp := range eng.ssaPkgs {
		for _, name := range rest[1:] {
			forEachFunc(eng, sp, func(fn *ssa.Function) {
				if fn.Name() == name {
					fn.WriteTo(os.Stdout)
				}
			})
		}
	}
	return 0
}

// callSiteCensus: functions of the contract file's package (outside the allowed list) that contain a call site
// matching the pattern, and the total number of matching sites in the package.
func (e *Engine) callSiteCensus(cf *ContractFile, cd CallersDecl) ([]string, int) {
	allowed := map[string]bool{}
	for _, a := range cd.Allowed {
		// continuation lines are appended to the last entry: split again
		for _, n := range strings.FieldsFunc(a, func(r rune) bool { return r == ',' || r == ' ' || r == '\t' }) {
			allowed[n] = true
		}
	}
	var offenders []string
	sites := 0
	for _, sp := range e.ssaPkgs {
		if sp.Pkg.Name() != cf.PkgName || !strings.HasPrefix(filepath.Join(e.repo, strings.TrimPrefix(sp.Pkg.Path(), "github.com/bloxapp/ssv/")), filepath.Dir(cf.Path)) {
			continue
		}
		forEachFunc(e, sp, func(fn *ssa.Function) {
			var visit func(f *ssa.Function) bool
			visit = func(f *ssa.Function) bool {
				hit := false
				for _, blk := range f.Blocks {
					for _, in := range blk.Instrs {
						ci, ok := in.(ssa.CallInstruction)
						if !ok {
							continue
						}
						n := calleeName(ci.Common())
						if n != "" && (n == cd.Pattern || shortCallee(n) == cd.Pattern) {
							hit = true
							sites++
						}
					}
				}
				for _, af := range f.AnonFuncs {
					if visit(af) {
						hit = true
					}
				}
				return hit
			}
			if strings.HasPrefix(fn.Name(), "verif_") {
				return
			}
			if visit(fn) {
				name := shortCallee(fn.String())
				if !allowed[name] && !allowed[fn.String()] {
					offenders = append(offenders, name)
				}
			}
		})
	}
	sort.Strings(offenders)
	return offenders, sites
}

func forEachFunc(eng *Engine, sp *ssa.Package, f func(*ssa.Function)) {
	for _, m := range sp.Members {
		switch m := m.(type) {
		case *ssa.Function:
			f(m)
		case *ssa.Type:
			for _, t := range []interface{ String() string }{} {
				_ = t
			}
			ms := eng.prog.MethodSets.MethodSet(m.Type())
			for i := 0; i < ms.Len(); i++ {
				if fn := eng.prog.MethodValue(ms.At(i)); fn != nil {
					f(fn)
				}
			}
			ms = eng.prog.MethodSets.MethodSet(typesPointerOf(m))
			for i := 0; i < ms.Len(); i++ {
				if fn := eng.prog.MethodValue(ms.At(i)); fn != nil && fn.Synthetic == "" {
					f(fn)
				}
			}
		}
	}
}

func envOr(k, d string) string {
	if v := os.Getenv(k); v != "" {
		return v
	}
	return d
}

type evidence struct {
	PropertyID  string         `json:"property_id"`
	Tier        string         `json:"tier"`
	Seed        int            `json:"seed"`
	Level       string         `json:"level"`
	Coverage    map[string]any `json:"coverage"`
	Assumptions []string       `json:"assumptions"`
	WallS       float64        `json:"wall_s"`
	Violations  int            `json:"violations"`
}

func cmdCheck(args []string) int {
	fs := flag.NewFlagSet("check", flag.ExitOnError)
	repo := fs.String("repo", envOr("VERIF_REPO", "/repo"), "repository root")
	verif := fs.String("verif", envOr("VERIF_DIR", "/verif"), "verif root")
	prop := fs.String("prop", "", "property id")
	tier := fs.String("tier", envOr("VERIF_TIER", "quick"), "quick|thorough")
	only := fs.String("only", "", "regexp: only functions matching")
	keep := fs.Bool("keep", false, "keep SMT files")
	verbose := fs.Bool("v", false, "verbose")
	noEvidence := fs.Bool("no-evidence", false, "do not write evidence / replay files (self-test runs)")
	fs.BoolVar(&noClosure, "no-closure", false, "verify only the contracts tagged for the property, not the contracted callees they rely on")
	fs.Parse(args)
	t0 := time.Now()
	var pc PropConfig
	data, err := os.ReadFile(filepath.Join(*verif, "props", *prop+".json"))
	if err != nil {
		fmt.Fprintln(os.Stderr, "gowp:", err)
		return 2
	}
	if err := json.Unmarshal(data, &pc); err != nil {
		fmt.Fprintln(os.Stderr, "gowp:", err)
		return 2
	}
	seed := 0
	fmt.Sscanf(os.Getenv("VERIF_SEED"), "%d", &seed)
	eng := newEngine(*repo)
	var ext []string
	for _, e := range pc.Extern {
		ext = append(ext, filepath.Join(*verif, "contracts", e))
	}
	if err := eng.load(pc.Packages, ext, pc.Extra); err != nil {
		fmt.Fprintln(os.Stderr, "gowp: load:", err)
		if strings.Contains(err.Error(), "verif_contracts.go:") || strings.Contains(err.Error(), "not found in") {
			// The code under contract changed so that a contract no longer type-checks against it (a parameter,
			// field or callee the contract names has gone or changed type): its obligations cannot be generated,
			// hence are not discharged. Reported as a violation of the property the contract serves.
			rp := filepath.Join(*verif, "replays", pc.ID, "contract_typecheck.txt")
			if !*noEvidence {
				os.MkdirAll(filepath.Dir(rp), 0o755)
				os.WriteFile(rp, []byte("UNDISCHARGED: contract does not type-check against the current source\nobligation: contract.typecheck\n\n"+err.Error()+"\n"), 0o644)
			}
			fmt.Printf("VIOLATION property=%s replay=%s no-failing-input-found\n  obligation contract.typecheck [undischarged]: %s\n", pc.ID, rp, err.Error())
			return 1
		}
		return 2
	}
	loadS := time.Since(t0).Seconds()
	var onlyRe *regexp.Regexp
	if *only != "" {
		onlyRe = regexp.MustCompile(*only)
	}
	var obs []*Obligation
	var funcs []string
	notes := map[string]bool{}
	assumed := map[string]bool{}
	effFree := map[string]bool{}
	havocs := map[string]bool{}
	inlined := map[string]bool{}
	trustedFns := []string{}
	// work list: the contracts tagged for this property, then - callee closure - every repository contract one of them
	// relies on at a call site (a caller's proof assumes the callee's contract; the callee's own proof must therefore be
	// part of the same check, whichever properties its props line names)
	var work []*Contract
	closureObs := map[*Obligation]bool{}
	var closureFns []string
	queued := map[string]bool{}
	viaClosure := map[string]bool{}
	for _, con := range sortedContracts(eng.contracts) {
		if con.Extern {
			continue
		}
		tagged := false
		for _, p := range con.Props {
			if p == pc.ID {
				tagged = true
			}
		}
		if !tagged {
			continue
		}
		if onlyRe != nil && !onlyRe.MatchString(con.CalleeKey) {
			continue
		}
		work = append(work, con)
		queued[con.CalleeKey] = true
	}
	for wi := 0; wi < len(work); wi++ {
		con := work[wi]
		if con.Trusted {
			trustedFns = append(trustedFns, con.CalleeKey)
			continue
		}
		fn := eng.findFunction(con)
		if fn == nil {
			fmt.Fprintf(os.Stderr, "gowp: %s:%d: no SSA function for %s\n", con.File, con.Line, con.CalleeKey)
			return 2
		}
		enc := newEnc(eng, fn, con, pc.ID)
		enc.safety = con.Safety
		func() {
			defer func() {
				if r := recover(); r != nil {
					fmt.Fprintf(os.Stderr, "gowp: encoding %s panicked: %v\n%s\n", con.CalleeKey, r, debug.Stack())
					os.Exit(2)
				}
			}()
			enc.run()
		}()
		funcs = append(funcs, con.CalleeKey)
		obs = append(obs, enc.obls...)
		if viaClosure[con.CalleeKey] {
			closureFns = append(closureFns, con.CalleeKey)
			for _, ob := range enc.obls {
				closureObs[ob] = true
			}
		}
		for n := range enc.notes {
			notes[shortFn(fn)+": "+n] = true
		}
		for n := range enc.assumed {
			assumed[n] = true
		}
		for n := range enc.effectFree {
			effFree[n] = true
		}
		for n := range enc.havocCalls {
			havocs[shortFn(fn)+" -> "+n] = true
		}
		for n := range enc.autoInlined {
			inlined[n] = true
		}
		if !noClosure && onlyRe == nil {
			var ks []string
			for k := range enc.usedCons {
				ks = append(ks, k)
			}
			sort.Strings(ks)
			for _, k := range ks {
				uc := enc.usedCons[k]
				if queued[k] || uc.Inline || eng.findFunction(uc) == nil {
					continue
				}
				// the callee's proof was developed with the packages / assumed contracts of the properties its props
				// line names; it is pulled in only if this property loads at least what one of them loads (otherwise
				// facts its proof takes from contracts in packages not loaded here would be missing and a true
				// obligation would go undischarged - a false alarm); else it stays a listed assumption
				if !closureFits(*verif, &pc, uc) {
					assumed["contract of "+k+" assumed here (its own proof belongs to "+strings.Join(uc.Props, "/")+", whose packages this property does not load)"] = true
					queued[k] = true
					continue
				}
				queued[k] = true
				viaClosure[k] = true
				work = append(work, uc)
			}
		}
	}
	// lemmas of contract files (closed formulas)
	for pk, lms := range eng.lemmas {
		for _, lm := range lms {
			if onlyRe != nil {
				continue
			}
			enc := newEnc(eng, nil, nil, pc.ID)
			enc.sc = newScript()
			enc.curPrefix = "lemma"
			h0 := Heap{base: "0", m: map[string]Term{}}
			enc.regKey(keyAlloc, "Int")
			enc.regKey(keyEpoch, "Int")
			for _, ax := range eng.axioms[pk] {
				env := enc.newSpecEnv(eng.clauses[ax], nil, h0, h0)
				enc.sc.assert(enc.evalBool(env, clauseExpr(eng.clauses[ax])))
				assumed["axiom "+ax.Label+": "+ax.Text] = true
			}
			env := enc.newSpecEnv(eng.clauses[lm], nil, h0, h0)
			goal := enc.evalBool(env, clauseExpr(eng.clauses[lm]))
			obs = append(obs, &Obligation{Name: "lemma." + lm.Label, Kind: "lemma", Func: "lemma " + lm.Label, Text: lm.Text, Goal: not(goal), Script: enc.sc, NAsserts: -1})
		}
	}
	// call-site census (//@ callers): a structural obligation over every function of the package
	if onlyRe == nil {
		for _, cf := range eng.cfiles {
			for _, cd := range cf.Callers {
				tagged := false
				for _, p := range cd.Props {
					tagged = tagged || p == pc.ID
				}
				if !tagged {
					continue
				}
				offenders, sites := eng.callSiteCensus(cf, cd)
				sc := newScript()
				txt := fmt.Sprintf("call sites of %s occur only in: %s (%d sites found)", cd.Pattern, strings.Join(cd.Allowed, ", "), sites)
				if len(offenders) > 0 || sites == 0 {
					sc.raw = "; " + txt + "\n; offending functions: " + strings.Join(offenders, ", ") + "\n(check-sat)\n"
					txt += "; also called from: " + strings.Join(offenders, ", ")
				} else {
					sc.raw = "; " + txt + "\n(assert false)\n(check-sat)\n"
				}
				obs = append(obs, &Obligation{Name: fmt.Sprintf("%s.callers[%s].only_listed_functions", cf.PkgName, cd.Pattern), Kind: "callers", Func: cf.PkgName, Text: txt, Goal: "", Script: sc, NAsserts: -1})
			}
		}
	}
	// SMT lemma files
	var lemmaFiles []string
	for _, pat := range pc.Lemmas {
		ms, _ := filepath.Glob(filepath.Join(*verif, "lemmas", pat))
		lemmaFiles = append(lemmaFiles, ms...)
	}
	sort.Strings(lemmaFiles)
	for _, lf := range lemmaFiles {
		if onlyRe != nil {
			continue
		}
		txt, err := os.ReadFile(lf)
		if err != nil {
			fmt.Fprintln(os.Stderr, "gowp:", err)
			return 2
		}
		sc := newScript()
		sc.raw = string(txt)
		obs = append(obs, &Obligation{Name: "lemmafile." + strings.TrimSuffix(filepath.Base(lf), ".smt2"), Kind: "lemma", Func: filepath.Base(lf), Text: firstComment(string(txt)), Goal: "", Script: sc, NAsserts: -1})
	}
	dir, _ := os.MkdirTemp("", "gowp-smt-")
	if !*keep {
		defer os.RemoveAll(dir)
	} else {
		fmt.Fprintln(os.Stderr, "SMT files in", dir)
	}
	timeout := 10
	if *tier == "thorough" {
		timeout = 60
	}
	solveAll(dir, obs, timeout, 10, *tier == "thorough")
	// classify
	findings := loadFindings(filepath.Join(*verif, "known_findings.txt"))
	var failed []*Obligation
	bySolver := map[string]int{}
	solverTime := 0.0
	discharged, total, covers, coverOK := 0, 0, 0, 0
	var samples []any
	for _, ob := range obs {
		solverTime += ob.Time
		if ob.Cover {
			covers++
			if ob.Status == "unsat" {
				failed = append(failed, ob)
			} else {
				coverOK++
			}
			continue
		}
		total++
		if ob.Status == "unsat" {
			discharged++
			bySolver[ob.Solver]++
		} else {
			failed = append(failed, ob)
		}
		if len(samples) < 12 {
			samples = append(samples, map[string]any{"obligation": ob.Name, "kind": ob.Kind, "at": ob.Pos, "text": ob.Text, "status": ob.Status, "solver": ob.Solver, "time_s": round3(ob.Time)})
		}
		if *verbose {
			fmt.Printf("  %-8s %-60s %s %.2fs %s\n", ob.Status, ob.Name, ob.Solver, ob.Time, ob.Pos)
		}
	}
	for _, ob := range obs {
		if ob.Status == "error" {
			fmt.Fprintf(os.Stderr, "gowp: solver rejected the script of obligation %s (engine error, not a verdict):\n%s\n", ob.Name, strings.SplitN(ob.Output, "\n", 4)[0])
			return 2
		}
	}
	violations := 0
	known := 0
	replayDir := filepath.Join(*verif, "replays", pc.ID)
	if !*noEvidence {
		os.RemoveAll(replayDir)
	}
	for _, ob := range failed {
		matched := false
		for _, f := range findings {
			if f.Status == "open" && (f.Property == pc.ID || closureObs[ob]) && f.Pattern != nil && f.Pattern.MatchString(ob.Name) {
				matched = true
				fmt.Printf("KNOWN-FINDING: property=%s %s (%s)\n", pc.ID, ob.Name, f.Desc)
			}
		}
		if matched {
			known++
			continue
		}
		violations++
		rp := filepath.Join(replayDir, sanitize(ob.Name)+".txt")
		suffix := " no-failing-input-found"
		if !*noEvidence {
			os.MkdirAll(replayDir, 0o755)
			var b strings.Builder
			what := "UNDISCHARGED OBLIGATION"
			if ob.Cover {
				what = "VACUITY: cover obligation is unsatisfiable (contradictory precondition or unreachable return)"
			} else if ob.Status == "sat" {
				what = "REFUTED OBLIGATION (solver model below)"
			}
			fmt.Fprintf(&b, "%s\nproperty: %s\nobligation: %s\nkind: %s\nfunction: %s\nat: %s\nclause: %s\nsolver: %s status=%s time=%.2fs\n\n--- solver output\n%s\n--- model\n%s\n", what, pc.ID, ob.Name, ob.Kind, ob.Func, ob.Pos, ob.Text, ob.Solver, ob.Status, ob.Time, ob.Output, ob.Model)
			if ob.Status == "sat" && ob.Model != "" {
				if rep := tryReplay(eng, *verif, pc.ID, ob, &b); rep {
					suffix = ""
				}
			}
			os.WriteFile(rp, []byte(b.String()), 0o644)
		}
		if violations <= 25 {
			fmt.Printf("VIOLATION property=%s replay=%s%s\n", pc.ID, rp, suffix)
			txt := ob.Text
			if len(txt) > 160 {
				txt = txt[:160] + "..."
			}
			fmt.Printf("  obligation %s [%s] %s: %s (%s)\n", ob.Name, ob.Status, ob.Pos, txt, ob.Kind)
		} else if violations == 26 {
			fmt.Printf("  ... further violations are listed in %s\n", replayDir)
		}
	}
	if total < pc.MinObl || total == 0 {
		fmt.Printf("VIOLATION property=%s replay=%s no-failing-input-found\n  vacuity guard: %d obligations generated, expected at least %d\n", pc.ID, filepath.Join(replayDir, "vacuity.txt"), total, pc.MinObl)
		violations++
	}
	wall := time.Since(t0).Seconds()
	fmt.Printf("gowp %s %s: %d functions, %d obligations, %d discharged, %d covers ok/%d, %d known findings, %d violations, load %.1fs, solver %.1fs, wall %.1fs\n",
		pc.ID, *tier, len(funcs), total, discharged, coverOK, covers, known, violations, loadS, solverTime, wall)
	if len(notes) > 0 && *verbose {
		for _, n := range sortedKeys(notes) {
			fmt.Println("  note:", n)
		}
		for _, n := range sortedKeys(havocs) {
			fmt.Println("  havoc:", n)
		}
	}
	if !*noEvidence {
		asm := []string{}
		asm = append(asm, pc.Assumptions...)
		if pc.NotDecided == nil {
			pc.NotDecided = []string{}
		}
		if pc.Bounded == nil {
			pc.Bounded = []string{}
		}
		for _, a := range sortedKeys(assumed) {
			asm = append(asm, a)
		}
		if len(effFree) > 0 {
			asm = append(asm, "effect-free (no heap effect, unconstrained result): "+strings.Join(sortedKeys(effFree), ", "))
		}
		if len(havocs) > 0 {
			asm = append(asm, "uncontracted calls modelled as havoc of the whole heap (sound over-approximation): "+strings.Join(sortedKeys(havocs), "; "))
		}
		for _, t := range trustedFns {
			asm = append(asm, "contract assumed, body not verified: "+t)
		}
		for _, n := range sortedKeys(notes) {
			asm = append(asm, "engine note: "+n)
		}
		ev := evidence{PropertyID: pc.ID, Tier: *tier, Seed: seed, Level: "proof", WallS: round3(wall), Violations: violations, Assumptions: asm}
		ev.Coverage = map[string]any{
			// obligations matched by an open entry of known_findings.txt are not part of the claim: they are
			// undischarged by definition and are counted separately (known_findings)
			"obligations":              total - known,
			"discharged":               discharged,
			"checker_cmd":              fmt.Sprintf("/verif/bin/gowp check --prop %s --tier %s (VCs over go/ssa of %s, solved by z3-new 5.1.0 / z3 4.8.12 / cvc5 1.0)", pc.ID, *tier, *repo),
			"trusted_base":             []string{"go/packages + go/ssa (x/tools v0.29.0)", "gowp SSA->SMT encoding (Int with explicit wraparound, per-field heap arrays)", "z3 4.8.12, z3 5.1.0, cvc5 1.0", "assumed contracts listed under assumptions"},
			"samples":                  samples,
			"functions_under_contract": funcs,
			"functions_added_by_callee_closure": closureFns, // contracted callees of the property's functions whose props line names other properties: verified here too, since the callers' proofs assume them
			"callees_encoded_inline":   sortedKeys(inlined), // small loop-free repository functions without a contract: body used instead of a havoc
			"by_solver":                bySolver,
			"solver_time_s":            round3(solverTime),
			"load_s":                   round3(loadS),
			"cover_checks":             covers,
			"cover_ok":                 coverOK,
			"known_findings":           known,
			"not_decided":              pc.NotDecided,
			"bounded":                  pc.Bounded,
			"lemma_files":              lemmaFiles,
			"explanation":              "every obligation is one SMT query generated from the SSA of the current working tree; discharged = unsat from at least one solver",
		}
		os.MkdirAll(filepath.Join(*verif, "evidence"), 0o755)
		out, _ := json.MarshalIndent(ev, "", " ")
		os.WriteFile(filepath.Join(*verif, "evidence", pc.ID+".json"), out, 0o644)
	}
	if violations > 0 {
		return 1
	}
	return 0
}

func round3(f float64) float64 { return float64(int(f*1000)) / 1000 }

func sanitize(s string) string {
	return regexp.MustCompile(`[^\w.\-#@]+`).ReplaceAllString(s, "_")
}

func firstComment(s string) string {
	for _, ln := range strings.Split(s, "\n") {
		if strings.HasPrefix(ln, ";") {
			return strings.TrimSpace(strings.TrimLeft(ln, "; "))
		}
	}
	return ""
}

// tryReplay: per-function replay adapters (see replay.go); returns true if the model reproduced on real code.
