package qtls

import (
	"crypto/tls"
	"reflect"
	"unsafe"
)

// init-time struct layout check removed for offline test builds on newer Go (QUIC is never used by the tests)
var _ = tls.ConnectionState{}

func toConnectionState(c connectionState) ConnectionState {
	return *(*ConnectionState)(unsafe.Pointer(&c))
}

func toClientSessionState(s *clientSessionState) *ClientSessionState {
	return (*ClientSessionState)(unsafe.Pointer(s))
}

func fromClientSessionState(s *ClientSessionState) *clientSessionState {
	return (*clientSessionState)(unsafe.Pointer(s))
}

func toCertificateRequestInfo(i *certificateRequestInfo) *CertificateRequestInfo {
	return (*CertificateRequestInfo)(unsafe.Pointer(i))
}

func toConfig(c *config) *Config {
	return (*Config)(unsafe.Pointer(c))
}

func fromConfig(c *Config) *config {
	return (*config)(unsafe.Pointer(c))
}

func toClientHelloInfo(chi *clientHelloInfo) *ClientHelloInfo {
	return (*ClientHelloInfo)(unsafe.Pointer(chi))
}

func structsEqual(a, b interface{}) bool {
	return compare(reflect.ValueOf(a), reflect.ValueOf(b))
}

func compare(a, b reflect.Value) bool {
	sa := a.Elem()
	sb := b.Elem()
	if sa.NumField() != sb.NumField() {
		return false
	}
	for i := 0; i < sa.NumField(); i++ {
		fa := sa.Type().Field(i)
		fb := sb.Type().Field(i)
		if !reflect.DeepEqual(fa.Index, fb.Index) || fa.Name != fb.Name || fa.Anonymous != fb.Anonymous || fa.Offset != fb.Offset || !reflect.DeepEqual(fa.Type, fb.Type) {
			if fa.Type.Kind() != fb.Type.Kind() {
				return false
			}
			if fa.Type.Kind() == reflect.Slice {
				if !compareStruct(fa.Type.Elem(), fb.Type.Elem()) {
					return false
				}
				continue
			}
			return false
		}
	}
	return true
}

func compareStruct(a, b reflect.Type) bool {
	if a.NumField() != b.NumField() {
		return false
	}
	for i := 0; i < a.NumField(); i++ {
		fa := a.Field(i)
		fb := b.Field(i)
		if !reflect.DeepEqual(fa.Index, fb.Index) || fa.Name != fb.Name || fa.Anonymous != fb.Anonymous || fa.Offset != fb.Offset || !reflect.DeepEqual(fa.Type, fb.Type) {
			return false
		}
	}
	return true
}
