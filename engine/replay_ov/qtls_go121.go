//go:build go1.21

package qtls
