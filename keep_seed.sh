#!/bin/bash
# ./keep_seed.sh <ID> <variant> "<verify line>" "<caught-by text>"  -- copy a confirmed seeded change into /verif/seeded/<ID>_<variant>/
set -e
id="$1"; v="$2"; src="/tmp/seeded_out/$id/$v"; dst="/verif/seeded/${id}_$v"
mkdir -p "$dst"; cp -r "$src"/* "$dst"/
python3 - "$dst/meta.json" "$3" "$4" <<'PY'
import json,sys
p=sys.argv[1]
try: m=json.load(open(p))
except Exception: m={}
m['confirmed_by_builder']=sys.argv[2]
m['detected_by']=sys.argv[3]
json.dump(m,open(p,'w'),indent=1)
PY
