#!/usr/bin/env python3
"""Regenerates MANIFEST.json from manifest_src.json (claimed checks) + properties.jsonl (everything else -> not_applicable)."""
import json, subprocess
src = json.load(open('/verif/manifest_src.json'))
props = [json.loads(l) for l in open('/verif/properties.jsonl')]
claimed = {c['property_id'] for c in src['checks']}
na = []
for p in props:
    if p['id'] not in claimed:
        na.append({"property_id": p['id'], "reason": src['not_applicable'].get(p['id'], "no contract check has been built for this property yet")})
hooks = subprocess.run(['git','-C','/repo','log','--format=%H','--grep=^verif hook'],capture_output=True,text=True).stdout.split()
m = {
 "version": 1,
 "setup_cmd": "cd /verif/engine && GOFLAGS=-mod=mod GOPROXY=off GOSUMDB=off GOTOOLCHAIN=local go build -o ../bin/gowp ./cmd/gowp",
 "hooks": {"guard": "verif", "enable": "go/packages load with -tags=verif; the hook files are comment-only verif_contracts.go (//go:build verif) holding //@ contract lines, no code",
           "baseline_off_cmd": json.load(open('/root/.vp/BASELINE.json'))['cmd'], "source_commits": hooks, "add_only": True},
 "engines": [{"name": "gowp", "path": "/verif/engine", "serves_properties": sorted(claimed),
              "kind_free_text": "own deductive verifier for Go: weakest-precondition style VCs over go/ssa of the real source, contracts as //@ comments, discharged by z3 5.1.0 / z3 4.8.12 / cvc5 1.0"}],
 "checks": src['checks'],
 "notes": src.get('notes', ''),
 "not_applicable": na,
}
json.dump(m, open('/verif/MANIFEST.json','w'), indent=1)
print("claimed:", sorted(claimed), "not_applicable:", [x['property_id'] for x in na])
