#!/bin/bash
# ./trypatch.sh <ID> <patch.diff> [extra gowp args]  -- run a property's check against a scratch copy of /repo with the patch applied
set -u
cd "$(dirname "$0")"
id="$1"; patch="$2"; shift; shift
tmp="${TMPDIR:-/var/tmp}/gowp-try-$$"
rm -rf "$tmp"; mkdir -p "$tmp"
rsync -a --exclude .git /repo/ "$tmp/repo/"
if ! (cd "$tmp/repo" && patch -p1 -s < "$patch"); then echo "patch does not apply"; rm -rf "$tmp"; exit 3; fi
VERIF_REPO="$tmp/repo" ./check "$id" quick --no-evidence "$@"
rc=$?
rm -rf "$tmp"
exit $rc
