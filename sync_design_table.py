#!/usr/bin/env python3
"""Refresh the functions / obligations columns of DESIGN.md §0.2 from the evidence files of the last runs."""
import json, re, os
here = os.path.dirname(os.path.abspath(__file__))
p = os.path.join(here, 'DESIGN.md')
s = open(p).read()
def fix(m):
    pid = m.group(1)
    try:
        c = json.load(open(os.path.join(here, 'evidence', pid + '.json')))['coverage']
    except Exception:
        return m.group(0)
    n = len(c.get('functions_under_contract') or [])
    ob = c.get('obligations', 0)
    kf = c.get('known_findings', 0)
    obs = f"{ob}" + (f" (+{kf} known finding{'s' if kf != 1 else ''})" if kf else "")
    return f"| {pid} | {n} | {obs} |"
s2 = re.sub(r"^\| (C\d\d) \| \d+ \| [^|]* \|", fix, s, flags=re.M)
open(p, 'w').write(s2)
print("rows changed:", sum(1 for a, b in zip(s.splitlines(), s2.splitlines()) if a != b))
