#!/bin/bash
# ./slow_obls.sh [threshold_s]  -- list obligations whose solver time exceeds the threshold (default 2 s), per property
cd "$(dirname "$0")"; th=${1:-2}
for p in $(ls props | sed 's/.json//'); do
  ./bin/gowp check --prop $p --no-evidence -v 2>/dev/null | awk -v th=$th -v p=$p '$1=="unsat" { t=$(NF-1); sub("s","",t); if (t+0 > th) print p, $2, $3, t }'
done
